#!/bin/bash
# tools/run_seed.sh <seed-name> [tier] [prop-override...]
# Applies /verif/seeded/<name>/patch.diff to /repo, runs the check(s), reverts, records the outcome.
set -u
name="$1"; tier="${2:-quick}"; shift; shift 2>/dev/null
d="/verif/seeded/$name"
props="$*"
[ -n "$props" ] || props=$(python3 -c "import json;print(json.load(open('$d/meta.json'))['property'])")
if [ -n "$(git -C /repo status --porcelain --untracked-files=no)" ]; then echo "/repo not clean"; exit 2; fi
export MC_EVIDENCE_DIR="$(mktemp -d /tmp/seed_evidence.XXXXXX)"
trap 'git -C /repo checkout -- . ; rm -rf "$MC_EVIDENCE_DIR"' EXIT
git -C /repo apply "$d/patch.diff" || { echo "patch failed"; exit 2; }
cd /verif
for p in $props; do
  out=$(./check "$p" --tier "$tier" 2>&1); code=$?
  keys=$(echo "$out" | grep -A1 "^VIOLATION" | grep "key:" | sed 's/^ *key: //' | head -5 | tr '\n' ';')
  echo "$name $p $tier exit=$code keys=$keys"
  python3 - "$d/meta.json" "$p" "$tier" "$code" "$keys" <<'PY'
import json,sys
f,p,tier,code,keys=sys.argv[1:6]
m=json.load(open(f))
det=m.get("detected_by") or {}
det[f"{p}:{tier}"]={"exit":int(code),"violation_keys":[k for k in keys.split(';') if k]}
m["detected_by"]=det
json.dump(m,open(f,'w'),indent=1)
PY
done
