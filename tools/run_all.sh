#!/bin/bash
# tools/run_all.sh <tier> [props...]: runs every check of the tier, one line per check
tier="${1:-quick}"; shift
props="$*"; [ -n "$props" ] || props="C02 C03 C04 C09 C11 C12 C13 C14 C15 C19 C20 C05 C17 C18 C07 C08 C10 C16 C06 C01"
cd "$(dirname "$0")/.."
rc=0
for p in $props; do
  s=$(date +%s)
  out=$(./check $p --tier $tier 2>&1); code=$?
  e=$(date +%s)
  echo "$p $tier exit=$code secs=$((e-s)) :: $(echo "$out" | grep -E "^C[0-9]+ (quick|thorough):" | tail -1)"
  [ $code = 0 ] || { echo "$out" | grep -E "VIOLATION|key:|MACHINERY" | head -10; rc=1; }
done
exit $rc
