#!/bin/bash
# verifies the round-6 sub-agent changes under /tmp/wt/Cxx/_out/mutN and stores them as seeded/Cxx-(N+3)
for p in 01 02 03 04 05 06 07 08 09 10 11 12 13 14 15 16 17 18 19 20; do
  for n in 1 2 3; do
    src=/tmp/wt/C$p/_out/mut$n
    [ -f $src/patch.diff ] || continue
    name=C$p-$((n+15))
    [ -f /verif/seeded/$name/meta.json ] && continue
    /verif/tools/verify_seed.sh C$p $src $name
  done
done
