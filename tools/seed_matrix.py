#!/usr/bin/env python3
"""Writes /verif/seeded/MATRIX.md: which check catches which seeded change (from seeded/*/meta.json)."""
import json,glob,re,os
rows=[]
for d in sorted(glob.glob('/verif/seeded/*/')):
    if not os.path.exists(d+'meta.json'): continue
    m=json.load(open(d+'meta.json'))
    notes=open(d+'notes.md').read() if os.path.exists(d+'notes.md') else ''
    first=[l.strip() for l in notes.splitlines() if l.strip() and not l.startswith('#')]
    what=(first[0] if first else '')[:170].replace('|','/')
    files=sorted(set(re.findall(r'^\+\+\+ b/(\S+)', open(d+'patch.diff').read(), flags=re.M)))
    det=m.get('detected_by') or {}
    caught=[]
    for k,v in sorted(det.items()):
        if v['exit']==1:
            keys=v.get('violation_keys') or []
            caught.append(f"{k.split(':')[0]} ({(keys[0] if keys else '')[:70]})")
    rows.append((m['name'],m['property'],', '.join(files),what,'; '.join(caught) or 'NOT CAUGHT'))
out=["# Seeded property-breaking changes and the checks that catch them","",
"Each change was written by an independent sub-agent that saw only the property text and a scratch worktree, then confirmed by tools/verify_seed.sh (239 baseline tests still pass; the agent's demo fails with the change and passes without). `tools/selftest.sh seeds` re-runs the whole matrix.","",
"| seed | property | files | change (first line of the agent's notes) | caught by (quick tier; first violation key) |","|---|---|---|---|---|"]
for r in rows: out.append("| "+" | ".join(r)+" |")
open('/verif/seeded/MATRIX.md','w').write("\n".join(out)+"\n")
print(len(rows),"rows")
