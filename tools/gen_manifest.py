#!/usr/bin/env python3
"""Writes /verif/MANIFEST.json from the table below (single source of truth for the interface)."""
import json, os
V = "/verif"
props = [json.loads(l) for l in open(f"{V}/properties.jsonl")]
built = {
 "C01": ("model_checking", "deviation-bounded exhaustive enumeration of whole-file variants, all prefixes, and complete small-scope enumeration of stand-alone entry points; real code executed on every case, process-isolated", "L+G", "3.C01"),
 "C02": ("model_checking", "complete enumeration of 1- and 2-field deviations of every on-disk structure over the boundary value alphabet, decoded by the real parsers and compared with an independent layout-table reference; packed accessors exhaustively over their whole domain", "G", "3.C02"),
 "C03": ("model_checking", "complete enumeration of a range-geometry alphabet (offset x size x type x flags) for caller-supplied and table-carried headers; pointer identity of every returned slice against the reference-computed designated range", "G", "3.C03"),
 "C04": ("model_checking", "exhaustive enumeration of (buffer, offset, width, byte-order spec): all byte strings up to a length bound, byte walks for wide integers, full 2^32 domain in the thorough tier; reference shift-accumulate oracle", "G", "3.C04"),
 "C05": ("model_checking", "complete enumeration of a grid of generated files (section/program-header counts across the extended-numbering thresholds, table placements, every entsize) against a reference model of the numbering rules, both parsers", "G", "3.C05"),
 "C06": ("model_checking", "the complete C01 enumeration re-run under a counting global allocator (0 allocation calls demanded on every case) plus exhaustive enumeration of the 8 cargo feature subsets and a no_std allocator-less link probe", "L+G+T", "3.C06"),
 "C07": ("model_checking", "explicit-state BFS (stateright) over the real ElfStream with a scripted Read+Seek environment: every reachable cache state x every op x every legal reader answer within a deviation budget, differential oracle against the slice parser; plus deviation-bounded lattice of whole files for the open clause", "S+L", "3.C07"),
 "C08": ("model_checking", "the same explicit-state exploration and lattice with I/O-log inclusion in reference-computed designated ranges and a per-allocation bound enforced by the harness allocator", "S+L", "3.C08"),
 "C09": ("model_checking", "complete enumeration of every ragged table length x entry type x encoding x index alphabet, plus explicit-state exploration of (table, iterator) operation sequences to a depth bound", "G", "3.C09"),
 "C10": ("model_checking", "exhaustive enumeration of the ident byte domains x specs x entry points with exact error payloads; record-by-record AnyEndian-vs-fixed-spec equality over the whole deviation-bounded lattice", "G+L", "3.C10"),
 "C11": ("model_checking", "small-scope exhaustive enumeration: all subsets of a name universe (collisions, same-bucket, non-UTF-8) x nbucket x bloom size x shift x symoffset x encodings, built by a reference builder, lookup compared with linear-scan ground truth; soundness over all 1-word deviations and all short word strings", "G", "3.C11"),
 "C12": ("model_checking", "same small-scope scheme for SysV tables; hash function against the gABI reference over all strings up to a length bound", "G", "3.C12"),
 "C13": ("model_checking", "complete enumeration of small version models (files x aux, definitions x names, index assignments, versym values incl. hidden/unknown) x record layouts x encodings x two access paths, against model ground truth", "G", "3.C13"),
 "C14": ("model_checking", "complete enumeration of note sequences (namesz/descsz over every residue, alignments, types, tails and truncations) against a reference walker", "G", "3.C14"),
 "C15": ("model_checking", "exhaustive enumeration of every string table up to 7 bytes over a 4-byte alphabet x every offset, against the reference definition", "G", "3.C15"),
 "C16": ("model_checking", "complete enumeration of adversarial link structures (all functional graphs on <= n slots, all stop-bit patterns, next/aux/count alphabets) with item-count oracles and a per-case watchdog; 64 KiB scale families", "G+L", "3.C16"),
 "C17": ("model_checking", "explicit-state BFS (stateright) over the real ElfStream with fault injection at every I/O call index (error, premature EOF, short-then-EOF, seek error; transient and permanent), search continued from post-fault states to a fixpoint", "S", "3.C17"),
 "C18": ("model_checking", "crash-point enumeration: every prefix length of generated files (tables-first and rotated body orders) and suffix extensions, per-API-call comparison of the cut file with the whole file, both parsers", "L", "3.C18"),
 "C19": ("exploration", "exhaustive table comparison: every exported constant against a committed glibc/LLVM reference, every field of the 16 repr(C) structs, every to_str function over its whole domain", "T", "3.C19"),
 "C20": ("model_checking", "complete enumeration of generated objects (every presence subset of the common sections, section orders, sh_link targets, name alphabets) with cross-path oracles", "G", "3.C20"),
}
have = set(open(f"{V}/mc/mc/src/props/mod.rs").read().split('pub const ALL: &[&str] = &[')[1].split(']')[0].replace('"','').replace(' ','').split(','))
checks=[]; na=[]
for p in props:
    i=p["id"]
    if i in have and i in built:
        lvl,tech,eng,ref=built[i]
        checks.append({"property_id":i,"quick_cmd":f"./check {i} --tier quick","thorough_cmd":f"./check {i} --tier thorough",
          "evidence_file":f"/verif/evidence/{i}.json","replay_cmd_template":"./check replay {path}","engine":eng,
          "level_claimed":{"category":lvl,"text":tech,"design_ref":f"DESIGN.md section {ref}"},
          "level_note":"bounded: nothing is claimed outside the stated alphabets and deviation bounds (DESIGN.md section 5); the reference model in mc/refmodel and the harness are trusted; 64-bit little-endian host",
          "technique":("model checking: " if lvl=="model_checking" else "exhaustive finite-domain enumeration: ")+tech.split(';')[0][:160]})
    else:
        na.append({"property_id":i,"reason":"check not built yet in this session (work in progress; DESIGN.md section 7 build order)"})
m={"version":1,
 "setup_cmd":"cd /verif/mc && CARGO_NET_OFFLINE=true cargo build --release --offline",
 "hooks":{"guard":"none: no hooks or instrumentation were added to /repo (state is observed through the public API, derive(Debug) output and a scripted Read+Seek)","enable":"n/a (checks build /repo as a plain path dependency with default features)","baseline_off_cmd":"cd /repo && cargo test --workspace --no-fail-fast --offline","source_commits":[],"add_only":True},
 "engines":[
  {"name":"L","path":"mc/mc/src/lattice.rs","serves_properties":["C01","C06","C07","C08","C10","C16","C18"],"kind_free_text":"deviation-bounded lattice over whole-file skeletons (k<=2 sites), all prefixes/suffixes"},
  {"name":"G","path":"mc/mc/src/props","serves_properties":["C01","C02","C03","C04","C05","C09","C11","C12","C13","C14","C15","C16","C20"],"kind_free_text":"small-scope exhaustive grids with reference builders / ground truth (mc/refmodel)"},
  {"name":"S","path":"mc/mc/src/props/stream_props.rs","serves_properties":["C07","C08","C17"],"kind_free_text":"stateright explicit-state BFS over the real ElfStream with a scripted environment"},
  {"name":"T","path":"mc/mc/src/props/c19.rs","serves_properties":["C19","C06"],"kind_free_text":"finite tables and configurations"}],
 "checks":checks,"not_applicable":na,
 "notes":"./check <id> --tier quick|thorough rebuilds mc (and elf from /repo's working tree) and runs it; exit 0 held / 1 VIOLATION / 2 machinery. Known findings: KNOWN_FINDINGS.txt. Seeded changes: seeded/."}
json.dump(m,open(f"{V}/MANIFEST.json","w"),indent=1)
print(len(checks),"checks;",len(na),"not yet")
