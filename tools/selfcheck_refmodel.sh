#!/bin/bash
# Self-validation of the reference model (not a verdict on the crate): the generated skeletons are
# written to disk and read by binutils readelf and llvm-readelf; any warning/error fails.
set -u
cd "$(dirname "$0")/.."
d=$(mktemp -d /tmp/refmodel_dump.XXXXXX)
trap 'rm -rf "$d"' EXIT
mc/target/release/mc dump "$d" || exit 2
bad=0; n=0
for f in "$d"/*; do
  case "$(basename "$f")" in extended-numbering*|phdrs-only*) continue;; esac  # deliberately unusual encodings (PN_XNUM with a small count; PT_DYNAMIC without DT_STRTAB)
  n=$((n+1))
  out=$(readelf -aW -V -n "$f" 2>&1); syms=$(readelf --dyn-syms -D -W "$f" 2>&1)
  # expected and harmless: files built without program headers have no address map
  c1=$(echo "$out$syms" | grep -Ei "warning|error|corrupt|invalid|bad " | grep -v "Cannot interpret virtual addresses without program headers" | grep -v "not located in any PT_LOAD segment")
  if [ -n "$c1" ]; then
    echo "READELF COMPLAINS: $(basename "$f")"; echo "$c1" | head -5; bad=1
  fi
  if command -v llvm-readelf-14 >/dev/null; then
    o2=$(llvm-readelf-14 -a -W "$f" 2>&1)
    # expected: LLVM 14 pads note name/descriptor SIZES (not offsets) for 8-byte alignment, unlike
    # binutils, the gABI and the property's statement; the short PT_DYNAMIC family is deliberate
    c2=$(echo "$o2" | grep -Ei "warning|error" | grep -v "ELF note overflows container" | grep -v "PT_DYNAMIC segment")
    if [ -n "$c2" ]; then echo "LLVM-READELF COMPLAINS: $(basename "$f")"; echo "$c2" | head -5; bad=1; fi
  fi
done
echo "refmodel selfcheck: $n files, $([ $bad = 0 ] && echo clean || echo COMPLAINTS)"
exit $bad
