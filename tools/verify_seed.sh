#!/bin/bash
# tools/verify_seed.sh <prop> <srcdir> <name>
# Independently confirms a seeded change: (1) demo passes on the unchanged tree, (2) with the patch the
# crate builds, the 239 baseline tests still pass (same 2 known failures), (3) the demo fails.
# On success the change is stored as /verif/seeded/<name>/{patch.diff,demo.rs,notes.md,meta.json}.
set -u
prop="$1"; src="$2"; name="$3"
wt="/tmp/vs/$name"
export CARGO_NET_OFFLINE=true CARGO_TARGET_DIR=/tmp/vs/target
mkdir -p /tmp/vs
git -C /repo worktree remove --force "$wt" >/dev/null 2>&1
git -C /repo worktree add -q --detach "$wt" HEAD || exit 2
cleanup() { git -C /repo worktree remove --force "$wt" >/dev/null 2>&1; }
trap cleanup EXIT
cd "$wt" || exit 2
mkdir -p tests && cp "$src/demo.rs" tests/demo.rs
timeout 300 cargo test --offline --test demo >/tmp/vs/$name.demo_clean.log 2>&1; demo_clean=$?
if ! git apply "$src/patch.diff"; then echo "$name: patch does not apply"; exit 1; fi
timeout 600 cargo test --offline --lib >/tmp/vs/$name.suite.log 2>&1
passed=$(grep -o "[0-9]* passed" /tmp/vs/$name.suite.log | head -1 | cut -d' ' -f1)
failed=$(grep -o "[0-9]* failed" /tmp/vs/$name.suite.log | head -1 | cut -d' ' -f1)
failing=$(grep -E "^test .* \.\.\. FAILED$" /tmp/vs/$name.suite.log | sed 's/^test //; s/ \.\.\. FAILED//' | sort | tr '\n' ' ')
timeout 300 cargo test --offline --doc >/tmp/vs/$name.doc.log 2>&1; doc=$?
timeout 120 cargo build --offline --no-default-features >/tmp/vs/$name.nodef.log 2>&1; nodef=$?
timeout 300 cargo test --offline --test demo >/tmp/vs/$name.demo_mut.log 2>&1; demo_mut=$?
ok=1
[ "$demo_clean" = 0 ] || ok=0
[ "$passed" = 239 ] || ok=0
[ "$failing" = "elf_bytes::interface_tests::shnum_and_shstrndx_in_shdr0 elf_stream::interface_tests::shnum_and_shstrndx_in_shdr0 " ] || ok=0
[ "$doc" = 0 ] || ok=0
[ "$nodef" = 0 ] || ok=0
[ "$demo_mut" != 0 ] || ok=0
echo "$name: demo_clean=$demo_clean suite_passed=$passed failed=$failed doc=$doc nodefault_build=$nodef demo_with_patch=$demo_mut => ok=$ok"
if [ "$ok" = 1 ]; then
  d="/verif/seeded/$name"; mkdir -p "$d"
  cp "$src/patch.diff" "$src/demo.rs" "$d/"; [ -f "$src/notes.md" ] && cp "$src/notes.md" "$d/notes.md"
  python3 - "$d" "$prop" "$name" "$passed" "$demo_mut" <<'PY'
import json,sys,re,os
d,prop,name,passed,demo_mut=sys.argv[1:6]
notes=open(os.path.join(d,'notes.md')).read() if os.path.exists(os.path.join(d,'notes.md')) else ''
meta={"property":prop,"name":name,"origin":"independent sub-agent given only the property text and a scratch worktree",
 "needs_to_manifest":notes[:1500],
 "confirmed":{"demo_on_unchanged_tree":"pass","suite_with_patch":f"{passed} passed, same 2 known failures","doctests_with_patch":"pass","no_default_features_build":"ok","demo_with_patch":f"fails (cargo exit {demo_mut})"},
 "ran":["tools/verify_seed.sh (scratch worktree under /tmp/vs, removed afterwards)"],"detected_by":None}
json.dump(meta,open(os.path.join(d,'meta.json'),'w'),indent=1)
PY
fi
[ "$ok" = 1 ]
