#!/usr/bin/env python3
"""tools/apply_selftest_log.py <log of tools/selftest.sh seeds>: records the exit codes in seeded/*/meta.json
(keys "<check>:quick"; violation keys of earlier runs are kept when the verdict is unchanged)."""
import json, re, sys, os
root = os.path.join(os.path.dirname(os.path.abspath(__file__)), "..", "seeded")
n = 0
for line in open(sys.argv[1]):
    m = re.match(r"seed (C\d+-\d+) (C\d+) exit=(\d+)", line)
    if not m:
        continue
    seed, chk, code = m.group(1), m.group(2), int(m.group(3))
    f = os.path.join(root, seed, "meta.json")
    if not os.path.exists(f):
        continue
    meta = json.load(open(f))
    det = meta.get("detected_by") or {}
    old = det.get(chk + ":quick")
    if old is None or old.get("exit") != code:
        det[chk + ":quick"] = {"exit": code, "violation_keys": (old or {}).get("violation_keys", []) if code == 1 else []}
        meta["detected_by"] = det
        json.dump(meta, open(f, "w"), indent=1)
        n += 1
print(f"{n} records updated")
