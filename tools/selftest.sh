#!/bin/bash
# tools/selftest.sh seeds|benign|clean [tier]
#   seeds : every /verif/seeded/* change applied to /repo in turn; the check of its property and the
#           other checks recorded as catching it are run; at least one must exit 1, none may exit 2;
#           /repo is restored after each. tools/apply_selftest_log.py <log> writes the outcomes into meta.json.
#   benign: every /verif/selftest/benign/*.diff applied in turn; EVERY quick check must exit 0.
#   clean : every check on the untouched tree must exit 0.
set -u
mode="${1:-clean}"; tier="${2:-quick}"
cd "$(dirname "$0")/.."
# the tree that is patched: /repo, or a snapshot (then mc/elf-src of this /verif copy is re-pointed at it)
REPO="${SELFTEST_REPO:-/repo}"
if [ "$REPO" != "/repo" ]; then ln -sfn "$REPO" mc/elf-src; fi
# evidence of runs on patched trees must not overwrite the committed evidence
export MC_EVIDENCE_DIR="$(mktemp -d /tmp/selftest_evidence.XXXXXX)"
ALL="C01 C02 C03 C04 C05 C06 C07 C08 C09 C10 C11 C12 C13 C14 C15 C16 C17 C18 C19 C20"
fail=0
restore() { git -C "$REPO" checkout -- . ; }
cleanup() { restore; rm -rf "$MC_EVIDENCE_DIR"; }
trap cleanup EXIT
if [ -n "$(git -C "$REPO" status --porcelain --untracked-files=no)" ]; then echo "$REPO not clean"; exit 2; fi
case "$mode" in
clean)
  for p in $ALL; do ./check $p --tier $tier >/dev/null 2>&1; c=$?; echo "clean $p exit=$c"; [ $c = 0 ] || fail=1; done;;
benign)
  for d in selftest/benign/*.diff; do
    git -C "$REPO" apply "$PWD/$d" || { echo "cannot apply $d"; fail=1; continue; }
    for p in $ALL; do
      out=$(./check $p --tier $tier 2>&1); c=$?
      echo "benign $(basename $d .diff) $p exit=$c"
      if [ $c != 0 ]; then fail=1; echo "$out" | grep -E "VIOLATION|key:|MACHINERY" | head -6; fi
    done
    restore
  done;;
seeds)
  for d in seeded/C*/; do
    n=$(basename $d)
    # SELFTEST_FROM=<name>: resume a run that was cut short (seeds are visited in lexicographic order)
    if [ -n "${SELFTEST_FROM:-}" ] && [[ "$n" < "$SELFTEST_FROM" ]]; then continue; fi
    props=$(python3 -c "
import json;m=json.load(open('$d/meta.json'))
det=m.get('detected_by') or {}
ps=sorted({k.split(':')[0] for k,v in det.items() if v['exit']==1} | {m['property']})
print(' '.join(ps))")
    git -C "$REPO" apply "$PWD/$d/patch.diff" || { echo "cannot apply $n"; fail=1; continue; }
    caught=0
    for p in $props; do
      timeout 1200 ./check $p --tier $tier >/dev/null 2>&1; c=$?
      echo "seed $n $p exit=$c"; [ $c = 1 ] && caught=1
      # a check that used to catch this seed and no longer does, or a machinery exit, is a failure
      [ $c = 1 ] || [ $c = 0 ] || fail=1
    done
    [ $caught = 1 ] || { echo "seed $n NOT CAUGHT"; fail=1; }
    restore
  done;;
esac
echo "selftest $mode: $([ $fail = 0 ] && echo PASS || echo FAIL)"
exit $fail
