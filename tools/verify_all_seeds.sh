#!/bin/bash
# verifies every sub-agent change under /tmp/wt/*/_out/mut* and stores the confirmed ones in /verif/seeded
for p in 01 02 03 05 06 07 08 09 10 11 12 13 14 15 16 17 18 19 20; do
  for n in 1 2 3; do
    src=/tmp/wt/C$p/_out/mut$n
    [ -f $src/patch.diff ] || continue
    [ -f /verif/seeded/C$p-$n/meta.json ] && continue
    /verif/tools/verify_seed.sh C$p $src C$p-$n
  done
done
