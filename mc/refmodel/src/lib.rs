//! Reference model for the rust-elf checks. Does NOT depend on the crate under test.
pub mod hashes;
pub mod image;
pub mod layout;
pub mod notes;
pub mod symver;
