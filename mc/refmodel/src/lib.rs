pub fn hello() {}
