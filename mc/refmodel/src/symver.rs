//! GNU symbol versioning: model, section builders for several record placements, ground truth.

use crate::layout::*;

#[derive(Clone, Debug, PartialEq, Eq)]
pub struct Aux {
    pub name: Vec<u8>,
    pub hash: u32,
    pub flags: u16,
    pub other: u16,
}

#[derive(Clone, Debug, PartialEq, Eq)]
pub struct Need {
    pub file: Vec<u8>,
    pub auxes: Vec<Aux>,
}

#[derive(Clone, Debug, PartialEq, Eq)]
pub struct Def {
    pub ndx: u16,
    pub flags: u16,
    pub hash: u32,
    pub names: Vec<Vec<u8>>,
}

#[derive(Clone, Debug, Default)]
pub struct VerModel {
    pub needs: Vec<Need>,
    pub defs: Vec<Def>,
    pub versym: Vec<u16>,
}

#[derive(Clone, Copy, Debug, PartialEq, Eq)]
pub enum VerLayout {
    /// head0 aux0.0 aux0.1 head1 aux1.0 ...
    Contiguous,
    /// all heads, then all aux lists one after the other
    AuxAfterHeads,
    /// contiguous with a gap of n garbage bytes after every record
    Gaps(usize),
    /// all heads, then aux records round-robin across the heads (lists interleaved)
    Interleaved,
}

pub const LAYOUTS: [VerLayout; 5] = [
    VerLayout::Contiguous,
    VerLayout::AuxAfterHeads,
    VerLayout::Gaps(4),
    VerLayout::Gaps(12),
    VerLayout::Interleaved,
];

/// Incremental string table: NUL first; every added string gets its own copy.
#[derive(Clone, Debug)]
pub struct StrTab {
    pub bytes: Vec<u8>,
}
impl StrTab {
    pub fn new() -> StrTab {
        StrTab { bytes: vec![0] }
    }
    pub fn add(&mut self, s: &[u8]) -> u32 {
        let off = self.bytes.len() as u32;
        self.bytes.extend_from_slice(s);
        self.bytes.push(0);
        off
    }
}

/// positions[k] = offset of head k; aux_pos[k][j] = offset of aux j of head k; returns total size
fn place(counts: &[usize], head_size: usize, aux_size: usize, layout: VerLayout) -> (Vec<usize>, Vec<Vec<usize>>, usize) {
    let mut heads = Vec::new();
    let mut auxes: Vec<Vec<usize>> = counts.iter().map(|_| Vec::new()).collect();
    let mut pos = 0usize;
    match layout {
        VerLayout::Contiguous | VerLayout::Gaps(_) => {
            let gap = if let VerLayout::Gaps(g) = layout { g } else { 0 };
            for (k, c) in counts.iter().enumerate() {
                heads.push(pos);
                pos += head_size + gap;
                for _ in 0..*c {
                    auxes[k].push(pos);
                    pos += aux_size + gap;
                }
            }
        }
        VerLayout::AuxAfterHeads => {
            for _ in counts {
                heads.push(pos);
                pos += head_size;
            }
            for (k, c) in counts.iter().enumerate() {
                for _ in 0..*c {
                    auxes[k].push(pos);
                    pos += aux_size;
                }
            }
        }
        VerLayout::Interleaved => {
            for _ in counts {
                heads.push(pos);
                pos += head_size;
            }
            let maxc = counts.iter().copied().max().unwrap_or(0);
            for j in 0..maxc {
                for (k, c) in counts.iter().enumerate() {
                    if j < *c {
                        auxes[k].push(pos);
                        pos += aux_size;
                    }
                }
            }
        }
    }
    (heads, auxes, pos)
}

/// `.gnu.version_r`; strings are added to `strs`.
pub fn build_verneed(enc: Enc, needs: &[Need], layout: VerLayout, strs: &mut StrTab) -> Vec<u8> {
    let counts: Vec<usize> = needs.iter().map(|n| n.auxes.len()).collect();
    let (heads, auxes, total) = place(&counts, 16, 16, layout);
    let mut out = vec![0xEEu8; total];
    for (k, n) in needs.iter().enumerate() {
        let file = strs.add(&n.file);
        let vn_aux = if n.auxes.is_empty() { 0 } else { (auxes[k][0] - heads[k]) as u64 };
        let vn_next = if k + 1 < needs.len() { (heads[k + 1] - heads[k]) as u64 } else { 0 };
        let rec = encode(Kind::Verneed, enc, &[1, n.auxes.len() as u64, file as u64, vn_aux, vn_next], 0);
        out[heads[k]..heads[k] + 16].copy_from_slice(&rec);
        for (j, a) in n.auxes.iter().enumerate() {
            let name = strs.add(&a.name);
            let next = if j + 1 < n.auxes.len() { (auxes[k][j + 1] - auxes[k][j]) as u64 } else { 0 };
            let rec = encode(
                Kind::Vernaux,
                enc,
                &[a.hash as u64, a.flags as u64, a.other as u64, name as u64, next],
                0,
            );
            out[auxes[k][j]..auxes[k][j] + 16].copy_from_slice(&rec);
        }
    }
    out
}

/// `.gnu.version_d`; strings are added to `strs`.
pub fn build_verdef(enc: Enc, defs: &[Def], layout: VerLayout, strs: &mut StrTab) -> Vec<u8> {
    let counts: Vec<usize> = defs.iter().map(|d| d.names.len()).collect();
    let (heads, auxes, total) = place(&counts, 20, 8, layout);
    let mut out = vec![0xEEu8; total];
    for (k, d) in defs.iter().enumerate() {
        let vd_aux = if d.names.is_empty() { 0 } else { (auxes[k][0] - heads[k]) as u64 };
        let vd_next = if k + 1 < defs.len() { (heads[k + 1] - heads[k]) as u64 } else { 0 };
        let rec = encode(
            Kind::Verdef,
            enc,
            &[1, d.flags as u64, d.ndx as u64, d.names.len() as u64, d.hash as u64, vd_aux, vd_next],
            0,
        );
        out[heads[k]..heads[k] + 20].copy_from_slice(&rec);
        for (j, nm) in d.names.iter().enumerate() {
            let name = strs.add(nm);
            let next = if j + 1 < d.names.len() { (auxes[k][j + 1] - auxes[k][j]) as u64 } else { 0 };
            let rec = encode(Kind::Verdaux, enc, &[name as u64, next], 0);
            out[auxes[k][j]..auxes[k][j] + 8].copy_from_slice(&rec);
        }
    }
    out
}

pub fn build_versym(order: Order, versym: &[u16]) -> Vec<u8> {
    let mut out = vec![0u8; versym.len() * 2];
    for (i, v) in versym.iter().enumerate() {
        put(&mut out, 2 * i, 2, order, *v as u64);
    }
    out
}

#[derive(Clone, Debug, PartialEq, Eq)]
pub struct ReqTruth {
    pub file: Vec<u8>,
    pub name: Vec<u8>,
    pub hash: u32,
    pub flags: u16,
    pub hidden: bool,
}

#[derive(Clone, Debug, PartialEq, Eq)]
pub struct DefTruth {
    pub hash: u32,
    pub flags: u16,
    pub names: Vec<Vec<u8>>,
    pub hidden: bool,
}

impl VerModel {
    /// Ground truth for symbol `i`: None when `i` is beyond the versym table.
    pub fn requirement(&self, i: usize) -> Option<Option<ReqTruth>> {
        let v = *self.versym.get(i)?;
        let idx = v & 0x7fff;
        for n in &self.needs {
            for a in &n.auxes {
                if a.other == idx {
                    return Some(Some(ReqTruth {
                        file: n.file.clone(),
                        name: a.name.clone(),
                        hash: a.hash,
                        flags: a.flags,
                        hidden: v & 0x8000 != 0,
                    }));
                }
            }
        }
        Some(None)
    }
    pub fn definition(&self, i: usize) -> Option<Option<DefTruth>> {
        let v = *self.versym.get(i)?;
        let idx = v & 0x7fff;
        for d in &self.defs {
            if d.ndx == idx {
                return Some(Some(DefTruth {
                    hash: d.hash,
                    flags: d.flags,
                    names: d.names.clone(),
                    hidden: v & 0x8000 != 0,
                }));
            }
        }
        Some(None)
    }
}
