//! Whole-file image builder with a site map (where every header field lives) and ground truth.
//! Independent of the crate under test.

use crate::layout::*;

#[derive(Clone, Debug)]
pub enum Place {
    /// body is appended in the data area, aligned to `align`
    Auto,
    /// header claims this range; the body (if any) is written there when it fits into the file
    /// as it stands after all Auto bodies were placed (otherwise nothing is written)
    Claim { offset: u64, size: u64 },
    /// placed like Auto but the header's sh_size is overridden
    AutoSize { size: u64 },
}

#[derive(Clone, Debug)]
pub struct Sec {
    pub name: Vec<u8>,
    pub sh_type: u32,
    pub flags: u64,
    pub addr: u64,
    pub link: u32,
    pub info: u32,
    pub addralign: u64,
    pub entsize: u64,
    pub body: Vec<u8>,
    pub place: Place,
    pub align: usize,
    /// word width of "deep" sites inside the body (0 = no deep sites); (offset,width,label) list
    pub deep: Vec<(usize, usize, String)>,
}

impl Sec {
    pub fn new(name: &[u8], sh_type: u32, body: Vec<u8>) -> Sec {
        Sec {
            name: name.to_vec(),
            sh_type,
            flags: 0,
            addr: 0,
            link: 0,
            info: 0,
            addralign: 1,
            entsize: 0,
            body,
            place: Place::Auto,
            align: 8,
            deep: Vec::new(),
        }
    }
    pub fn link(mut self, l: u32) -> Sec {
        self.link = l;
        self
    }
    pub fn info(mut self, i: u32) -> Sec {
        self.info = i;
        self
    }
    pub fn entsize(mut self, e: u64) -> Sec {
        self.entsize = e;
        self
    }
    pub fn flags(mut self, f: u64) -> Sec {
        self.flags = f;
        self
    }
    pub fn addralign(mut self, a: u64) -> Sec {
        self.addralign = a;
        self
    }
    pub fn place(mut self, p: Place) -> Sec {
        self.place = p;
        self
    }
    pub fn deep_words(mut self, width: usize, max_words: usize) -> Sec {
        let n = (self.body.len() / width).min(max_words);
        for i in 0..n {
            self.deep.push((i * width, width, format!("w{}", i)));
        }
        self
    }
}

#[derive(Clone, Debug)]
pub enum SegTarget {
    /// covers exactly the file range of section index (final numbering, >= 1)
    Section(usize),
    Range { offset: u64, filesz: u64 },
}

#[derive(Clone, Debug)]
pub struct Seg {
    pub p_type: u32,
    pub flags: u32,
    pub vaddr: u64,
    pub paddr: u64,
    pub align: u64,
    /// p_memsz = p_filesz + memsz_extra (so that the two differ)
    pub memsz_extra: u64,
    pub target: SegTarget,
}

#[derive(Clone, Copy, Debug, PartialEq, Eq)]
pub enum TableOrder {
    /// Ehdr, Phdr table, Shdr table, bodies
    TablesFirst,
    /// Ehdr, Phdr table, bodies, Shdr table (what linkers emit)
    Linker,
}

#[derive(Clone, Debug)]
pub struct Spec {
    pub enc: Enc,
    pub order: TableOrder,
    pub e_type: u16,
    pub e_machine: u16,
    pub e_flags: u32,
    pub e_entry: u64,
    pub osabi: u8,
    pub abiversion: u8,
    /// sections 1..n (the null section 0 is added by the builder); `.shstrtab` is appended
    /// automatically as the last section when `auto_shstrtab`
    pub secs: Vec<Sec>,
    pub segs: Vec<Seg>,
    pub auto_shstrtab: bool,
    /// emit no section header table at all (e_shoff = 0)
    pub no_shdrs: bool,
    /// order in which the bodies are laid out in the file (final section numbers, 1-based);
    /// sections not listed follow in index order. Header indexes are unaffected.
    pub body_order: Vec<usize>,
    /// sh_addr := sh_offset for sections whose addr is 0, p_vaddr/p_paddr := p_offset for segments
    /// whose vaddr is 0 (an identity "memory image", which keeps third-party readers quiet)
    pub identity_addrs: bool,
    /// do not emit the leading null section header: `secs[0]` becomes section index 0
    pub no_null_section: bool,
}

impl Spec {
    pub fn new(enc: Enc, order: TableOrder) -> Spec {
        Spec {
            enc,
            order,
            e_type: 3,
            e_machine: 62,
            e_flags: 0,
            e_entry: 0,
            osabi: 0,
            abiversion: 0,
            secs: Vec::new(),
            segs: Vec::new(),
            auto_shstrtab: true,
            no_shdrs: false,
            body_order: Vec::new(),
            identity_addrs: true,
            no_null_section: false,
        }
    }
}

#[derive(Clone, Debug)]
pub struct Site {
    pub off: usize,
    pub width: usize,
    pub role: String,
    /// 0 = ehdr, 1000+i = shdr i, 2000+i = phdr i, 3000+i = body of section i
    pub group: u32,
    /// the entry size this field is multiplied with by a consumer (0 = none)
    pub mult: u64,
    pub valid: u64,
}

#[derive(Clone, Debug)]
pub struct Built {
    pub enc: Enc,
    pub bytes: Vec<u8>,
    pub shoff: usize,
    pub phoff: usize,
    pub shnum: usize,
    pub phnum: usize,
    pub shstrndx: usize,
    /// decoded field values per section header (incl. null section), layout order
    pub shdrs: Vec<Vec<u64>>,
    pub phdrs: Vec<Vec<u64>>,
    /// names per section header (incl. null section = empty)
    pub names: Vec<Vec<u8>>,
    pub sites: Vec<Site>,
}

fn align_up(x: usize, a: usize) -> usize {
    if a <= 1 {
        x
    } else {
        (x + a - 1) / a * a
    }
}

pub fn shdr_values(
    name: u64,
    sh_type: u64,
    flags: u64,
    addr: u64,
    offset: u64,
    size: u64,
    link: u64,
    info: u64,
    addralign: u64,
    entsize: u64,
) -> Vec<u64> {
    vec![name, sh_type, flags, addr, offset, size, link, info, addralign, entsize]
}

pub fn build(spec: &Spec) -> Built {
    let enc = spec.enc;
    let ehl = layout(Kind::Ehdr, enc.class);
    let shl = layout(Kind::Shdr, enc.class);
    let phl = layout(Kind::Phdr, enc.class);

    // final section list
    let mut secs: Vec<Sec> = Vec::new();
    if !spec.no_shdrs {
        if !spec.no_null_section {
            secs.push(Sec::new(b"", SHT_NULL, Vec::new()).addralign(0));
        }
        secs.extend(spec.secs.iter().cloned());
        if spec.auto_shstrtab {
            secs.push(Sec::new(b".shstrtab", SHT_STRTAB, Vec::new()));
        }
    }
    let nsec = secs.len();
    let shstrndx = if spec.auto_shstrtab && nsec > 0 { nsec - 1 } else { 0 };

    // shstrtab content: NUL, then each distinct name followed by NUL
    let mut name_offs: Vec<u64> = vec![0; nsec];
    if spec.auto_shstrtab && nsec > 0 {
        let mut tab: Vec<u8> = vec![0];
        for (i, s) in secs.iter().enumerate() {
            if s.name.is_empty() {
                name_offs[i] = 0;
            } else {
                name_offs[i] = tab.len() as u64;
                tab.extend_from_slice(&s.name);
                tab.push(0);
            }
        }
        secs[shstrndx].body = tab;
    }

    let nph = spec.segs.len();
    let phoff = if nph > 0 { ehl.size } else { 0 };
    let ph_end = ehl.size + nph * phl.size;
    let sh_bytes = nsec * shl.size;

    let mut cursor;
    let mut shoff = 0usize;
    if spec.order == TableOrder::TablesFirst && nsec > 0 {
        shoff = align_up(ph_end, 8);
        cursor = shoff + sh_bytes;
    } else {
        cursor = ph_end;
    }

    // place Auto bodies
    let mut ranges: Vec<(u64, u64)> = vec![(0, 0); nsec];
    let mut placed: Vec<(usize, usize)> = Vec::new(); // (sec, file offset) for body writes
    let first_real = if spec.no_null_section { 0 } else { 1 };
    let mut order: Vec<usize> = spec.body_order.iter().copied().filter(|i| *i >= first_real && *i < nsec).collect();
    for i in first_real..nsec {
        if !order.contains(&i) {
            order.push(i);
        }
    }
    for i in order {
        let s = &secs[i];
        match &s.place {
            Place::Auto | Place::AutoSize { .. } => {
                let off = align_up(cursor, s.align.max(1));
                let size = match &s.place {
                    Place::AutoSize { size } => *size,
                    _ => s.body.len() as u64,
                };
                ranges[i] = (off as u64, size);
                placed.push((i, off));
                cursor = off + s.body.len();
            }
            Place::Claim { offset, size } => {
                ranges[i] = (*offset, *size);
            }
        }
    }
    if spec.order == TableOrder::Linker && nsec > 0 {
        shoff = align_up(cursor, 8);
        cursor = shoff + sh_bytes;
    }
    let total = cursor.max(ehl.size);
    let mut bytes = vec![0u8; total];

    for (i, off) in &placed {
        let b = &secs[*i].body;
        bytes[*off..*off + b.len()].copy_from_slice(b);
    }
    for (i, s) in secs.iter().enumerate() {
        if let Place::Claim { offset, .. } = &s.place {
            let off = *offset as usize;
            if (*offset as u128) + (s.body.len() as u128) <= total as u128 && !s.body.is_empty() {
                bytes[off..off + s.body.len()].copy_from_slice(&s.body);
            }
            let _ = i;
        }
    }

    // extended numbering (reference writer rules)
    let e_shnum: u64 = if nsec as u64 >= SHN_LORESERVE { 0 } else { nsec as u64 };
    let e_shstrndx: u64 = if shstrndx as u64 >= SHN_LORESERVE { SHN_XINDEX } else { shstrndx as u64 };
    let e_phnum: u64 = if nph as u64 >= PN_XNUM { PN_XNUM } else { nph as u64 };

    let mut sites: Vec<Site> = Vec::new();

    // ehdr
    let ehdr_vals: Vec<u64> = vec![
        0x7f,
        b'E' as u64,
        b'L' as u64,
        b'F' as u64,
        enc.ei_class() as u64,
        enc.ei_data() as u64,
        1,
        spec.osabi as u64,
        spec.abiversion as u64,
        spec.e_type as u64,
        spec.e_machine as u64,
        1,
        spec.e_entry,
        phoff as u64,
        shoff as u64,
        spec.e_flags as u64,
        ehl.size as u64,
        if nph > 0 { phl.size as u64 } else { 0 },
        e_phnum,
        if nsec > 0 { shl.size as u64 } else { 0 },
        e_shnum,
        e_shstrndx,
    ];
    let eh = encode(Kind::Ehdr, enc, &ehdr_vals, 0);
    bytes[..ehl.size].copy_from_slice(&eh);
    for (fld, v) in ehl.fields.iter().zip(ehdr_vals.iter()) {
        let mult = match fld.name {
            "e_phnum" => phl.size as u64,
            "e_shnum" => shl.size as u64,
            "e_shstrndx" => shl.size as u64,
            _ => 0,
        };
        sites.push(Site {
            off: fld.off,
            width: fld.width,
            role: format!("ehdr.{}", fld.name),
            group: 0,
            mult,
            valid: *v,
        });
    }
    // the padding ident bytes are sites too (must be ignored by the parser)
    for off in 9..16 {
        sites.push(Site { off, width: 1, role: format!("ehdr.ei_pad{}", off), group: 0, mult: 0, valid: 0 });
    }

    // shdrs
    let mut shdrs: Vec<Vec<u64>> = Vec::new();
    for (i, s) in secs.iter().enumerate() {
        let addr = if spec.identity_addrs && s.addr == 0 && (i != 0 || spec.no_null_section) && s.sh_type != SHT_NOBITS { ranges[i].0 } else { s.addr };
        let mut v = shdr_values(
            name_offs[i],
            s.sh_type as u64,
            s.flags,
            addr,
            ranges[i].0,
            ranges[i].1,
            s.link as u64,
            s.info as u64,
            s.addralign,
            s.entsize,
        );
        if i == 0 && !spec.no_null_section {
            if nsec as u64 >= SHN_LORESERVE {
                v[5] = nsec as u64;
            }
            if shstrndx as u64 >= SHN_LORESERVE {
                v[6] = shstrndx as u64;
            }
            if nph as u64 >= PN_XNUM {
                v[7] = nph as u64;
            }
        }
        let off = shoff + i * shl.size;
        let e = encode(Kind::Shdr, enc, &v, 0);
        bytes[off..off + shl.size].copy_from_slice(&e);
        for (fld, val) in shl.fields.iter().zip(v.iter()) {
            let mult = match fld.name {
                "sh_link" => shl.size as u64,
                _ => 0,
            };
            sites.push(Site {
                off: off + fld.off,
                width: fld.width,
                role: format!("shdr[{}].{}", i, fld.name),
                group: 1000 + i as u32,
                mult,
                valid: *val,
            });
        }
        shdrs.push(v.iter().zip(shl.fields.iter()).map(|(x, f)| trunc(*x, f.width)).collect());
    }

    // phdrs
    let mut phdrs: Vec<Vec<u64>> = Vec::new();
    for (i, g) in spec.segs.iter().enumerate() {
        let (poff, pfilesz) = match &g.target {
            SegTarget::Section(si) => ranges[*si],
            SegTarget::Range { offset, filesz } => (*offset, *filesz),
        };
        let (va, pa) = if spec.identity_addrs && g.vaddr == 0 { (poff, poff) } else { (g.vaddr, g.paddr) };
        let v: Vec<u64> = vec![
            g.p_type as u64,
            poff,
            va,
            pa,
            pfilesz,
            pfilesz.wrapping_add(g.memsz_extra),
            g.flags as u64,
            g.align,
        ];
        let off = phoff + i * phl.size;
        let e = encode(Kind::Phdr, enc, &v, 0);
        bytes[off..off + phl.size].copy_from_slice(&e);
        for (fld, val) in phl.fields.iter().zip(v.iter()) {
            sites.push(Site {
                off: off + fld.off,
                width: fld.width,
                role: format!("phdr[{}].{}", i, fld.name),
                group: 2000 + i as u32,
                mult: 0,
                valid: *val,
            });
        }
        phdrs.push(v.iter().zip(phl.fields.iter()).map(|(x, f)| trunc(*x, f.width)).collect());
    }

    // deep sites
    for (i, off) in &placed {
        for (doff, w, label) in &secs[*i].deep {
            if doff + w <= secs[*i].body.len() {
                let valid = get(&bytes, off + doff, *w, enc.order);
                sites.push(Site {
                    off: off + doff,
                    width: *w,
                    role: format!("body[{}:{}].{}", i, String::from_utf8_lossy(&secs[*i].name), label),
                    group: 3000 + *i as u32,
                    mult: 0,
                    valid,
                });
            }
        }
    }

    Built {
        enc,
        bytes,
        shoff,
        phoff,
        shnum: nsec,
        phnum: nph,
        shstrndx,
        shdrs,
        phdrs,
        names: secs.iter().map(|s| s.name.clone()).collect(),
        sites,
    }
}

impl Built {
    pub fn site(&self, role: &str) -> &Site {
        self.sites.iter().find(|s| s.role == role).unwrap_or_else(|| panic!("no site {role}"))
    }
    pub fn patch(&mut self, role: &str, value: u64) {
        let s = self.site(role).clone();
        put(&mut self.bytes, s.off, s.width, self.enc.order, value);
    }
    pub fn sec_range(&self, i: usize) -> (u64, u64) {
        (self.shdrs[i][4], self.shdrs[i][5])
    }
}
