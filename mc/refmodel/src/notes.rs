//! Note sections: builder and reference walker (DESIGN.md appendix B).

use crate::layout::*;

#[derive(Clone, Debug, PartialEq, Eq)]
pub struct NoteSpec {
    pub n_type: u32,
    pub name: Vec<u8>,
    pub desc: Vec<u8>,
}

fn align_up(x: usize, a: usize) -> Option<usize> {
    if a == 0 {
        return None;
    }
    let r = x % a;
    if r == 0 {
        Some(x)
    } else {
        x.checked_add(a - r)
    }
}

/// Lay the notes out back to back: 12-byte header (three u32 in file order), name, padding to
/// `align`, descriptor, padding to `align`. Padding bytes are `pad`.
pub fn build_notes(order: Order, align: usize, notes: &[NoteSpec], pad: u8) -> Vec<u8> {
    let mut out: Vec<u8> = Vec::new();
    for n in notes {
        let mut h = [0u8; 12];
        put(&mut h, 0, 4, order, n.name.len() as u64);
        put(&mut h, 4, 4, order, n.desc.len() as u64);
        put(&mut h, 8, 4, order, n.n_type as u64);
        out.extend_from_slice(&h);
        out.extend_from_slice(&n.name);
        let t = align_up(out.len(), align).unwrap();
        out.resize(t, pad);
        out.extend_from_slice(&n.desc);
        let t = align_up(out.len(), align).unwrap();
        out.resize(t, pad);
    }
    out
}

#[derive(Clone, Debug, PartialEq, Eq)]
pub enum RefNoteKind {
    AbiTag { os: u32, major: u32, minor: u32, subminor: u32 },
    BuildId,
    Unknown,
}

#[derive(Clone, Debug, PartialEq, Eq)]
pub struct RefNote {
    pub n_type: u32,
    pub name: (usize, usize),
    pub desc: (usize, usize),
    pub kind: RefNoteKind,
}

/// Reference walk: the notes an iterator over `data` must yield, in order.
pub fn walk_notes(order: Order, align: usize, data: &[u8]) -> Vec<RefNote> {
    let mut out = Vec::new();
    if align == 0 || data.is_empty() {
        return out;
    }
    let mut pos = 0usize;
    loop {
        if pos.checked_add(12).map_or(true, |e| e > data.len()) {
            break;
        }
        let namesz = get(data, pos, 4, order) as usize;
        let descsz = get(data, pos + 4, 4, order) as usize;
        let n_type = get(data, pos + 8, 4, order) as u32;
        let ns = pos + 12;
        let ne = match ns.checked_add(namesz) {
            Some(e) if e <= data.len() => e,
            _ => break,
        };
        let ds = match align_up(ne, align) {
            Some(x) => x,
            None => break,
        };
        let de = match ds.checked_add(descsz) {
            Some(e) if e <= data.len() && ds <= data.len() => e,
            _ => break,
        };
        let next = match align_up(de, align) {
            Some(x) => x,
            None => break,
        };
        let name = &data[ns..ne];
        let kind = if name == b"GNU\0" && n_type == 1 {
            if descsz < 16 {
                break;
            }
            RefNoteKind::AbiTag {
                os: get(data, ds, 4, order) as u32,
                major: get(data, ds + 4, 4, order) as u32,
                minor: get(data, ds + 8, 4, order) as u32,
                subminor: get(data, ds + 12, 4, order) as u32,
            }
        } else if name == b"GNU\0" && n_type == 3 {
            RefNoteKind::BuildId
        } else {
            RefNoteKind::Unknown
        };
        out.push(RefNote { n_type, name: (ns, ne), desc: (ds, de), kind });
        pos = next;
        if out.len() > data.len() + 2 {
            break;
        }
    }
    out
}
