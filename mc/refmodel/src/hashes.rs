//! Reference hash functions, symbol/string table builders, `.hash` / `.gnu.hash` builders with
//! ground truth, and reference lookup algorithms (DESIGN.md appendix B).

use crate::layout::*;

/// gABI `elf_hash`.
pub fn elf_hash(name: &[u8]) -> u32 {
    let mut h: u32 = 0;
    for &c in name {
        h = (h << 4).wrapping_add(c as u32);
        let g = h & 0xf000_0000;
        if g != 0 {
            h ^= g >> 24;
        }
        h &= !g;
    }
    h
}

/// GNU hash (djb2, seed 5381, h*33 + c).
pub fn gnu_hash(name: &[u8]) -> u32 {
    let mut h: u32 = 5381;
    for &c in name {
        h = h.wrapping_mul(33).wrapping_add(c as u32);
    }
    h
}

/// String table: NUL, then every name followed by NUL. Returns (bytes, offset of each name).
/// Empty names get offset 0. Identical names get separate copies (so that offsets differ).
pub fn build_strtab(names: &[Vec<u8>]) -> (Vec<u8>, Vec<u32>) {
    let mut tab = vec![0u8];
    let mut offs = Vec::new();
    for n in names {
        if n.is_empty() {
            offs.push(0);
        } else {
            offs.push(tab.len() as u32);
            tab.extend_from_slice(n);
            tab.push(0);
        }
    }
    (tab, offs)
}

/// Symbol table with one symbol per name; symbol i gets distinctive value/size so that a
/// mis-indexed result is visible. Logical field order: name, value, size, info, other, shndx.
pub fn sym_values(i: usize, name_off: u32) -> Vec<u64> {
    vec![
        name_off as u64,
        0x1000 + 0x10 * i as u64,
        i as u64 + 1,
        0x12,
        0,
        if i == 0 { 0 } else { 1 + (i as u64 % 3) },
    ]
}

pub fn build_symtab(enc: Enc, name_offs: &[u32]) -> Vec<u8> {
    let mut out = Vec::new();
    for (i, off) in name_offs.iter().enumerate() {
        let v = if i == 0 { vec![*off as u64, 0, 0, 0, 0, 0] } else { sym_values(i, *off) };
        out.extend_from_slice(&encode(Kind::Sym, enc, &v, 0));
    }
    out
}

fn push_u32(out: &mut Vec<u8>, order: Order, v: u32) {
    let mut b = [0u8; 4];
    put(&mut b, 0, 4, order, v as u64);
    out.extend_from_slice(&b);
}
fn push_word(out: &mut Vec<u8>, enc: Enc, v: u64) {
    let w = enc.word();
    let mut b = [0u8; 8];
    put(&mut b, 0, w, enc.order, v);
    out.extend_from_slice(&b[..w]);
}

/// SysV `.hash` for symbols `names[0..n]` (index 0 is the null symbol and is never chained).
/// Every symbol 1..n is reachable; chains ascend.
pub fn build_sysv(order: Order, names: &[Vec<u8>], nbucket: usize) -> Vec<u8> {
    build_sysv_threaded(order, names, nbucket, 0)
}

/// `threading`: 0 = chains ascend (head = smallest index), 1 = chains descend (what linkers that
/// prepend produce), 2 = mixed (odd indexes prepended, even ones appended).
pub fn build_sysv_threaded(order: Order, names: &[Vec<u8>], nbucket: usize, threading: u8) -> Vec<u8> {
    let n = names.len();
    let mut bucket = vec![0u32; nbucket];
    let mut chain = vec![0u32; n];
    if nbucket > 0 {
        // per-bucket member lists in the wanted order, then thread them
        let mut members: Vec<Vec<usize>> = vec![Vec::new(); nbucket];
        for i in 1..n {
            let b = (elf_hash(&names[i]) as usize) % nbucket;
            match threading {
                0 => members[b].push(i),
                1 => members[b].insert(0, i),
                _ => {
                    if i % 2 == 1 {
                        members[b].insert(0, i)
                    } else {
                        members[b].push(i)
                    }
                }
            }
        }
        for (b, m) in members.iter().enumerate() {
            for (k, i) in m.iter().enumerate() {
                if k == 0 {
                    bucket[b] = *i as u32;
                }
                chain[*i] = if k + 1 < m.len() { m[k + 1] as u32 } else { 0 };
            }
        }
    }
    let mut out = Vec::new();
    push_u32(&mut out, order, nbucket as u32);
    push_u32(&mut out, order, n as u32);
    for b in bucket {
        push_u32(&mut out, order, b);
    }
    for c in chain {
        push_u32(&mut out, order, c);
    }
    out
}

/// The `.hash` of the 64-bit Alpha and s390x processor supplements: the same table with every
/// word (header, buckets, chains) 8 bytes wide (`sh_entsize` 8).
pub fn build_sysv_wide(order: Order, names: &[Vec<u8>], nbucket: usize) -> Vec<u8> {
    let narrow = build_sysv(order, names, nbucket);
    let mut out = Vec::with_capacity(narrow.len() * 2);
    for w in narrow.chunks_exact(4) {
        let v = get(w, 0, 4, order);
        let mut b = [0u8; 8];
        put(&mut b, 0, 8, order, v);
        out.extend_from_slice(&b);
    }
    out
}

pub struct GnuBuilt {
    pub section: Vec<u8>,
    /// final symbol order: the unhashed prefix followed by the hashed symbols, stably sorted by bucket
    pub sym_names: Vec<Vec<u8>>,
    pub symoffset: usize,
}

/// GNU `.gnu.hash`. `unhashed` includes the null symbol at index 0 (so symoffset = unhashed.len() >= 1).
pub fn build_gnu(
    enc: Enc,
    unhashed: &[Vec<u8>],
    hashed: &[Vec<u8>],
    nbucket: usize,
    bloom_words: usize,
    shift: u32,
) -> GnuBuilt {
    assert!(nbucket > 0 && bloom_words > 0);
    let symoffset = unhashed.len();
    let mut hs: Vec<(usize, u32, Vec<u8>)> = hashed
        .iter()
        .map(|n| {
            let h = gnu_hash(n);
            ((h as usize) % nbucket, h, n.clone())
        })
        .collect();
    hs.sort_by_key(|x| x.0); // stable
    let c: u32 = (enc.word() * 8) as u32;
    let mut bloom = vec![0u64; bloom_words];
    let mut buckets = vec![0u32; nbucket];
    let mut chain = vec![0u32; hs.len()];
    for (k, (b, h, _)) in hs.iter().enumerate() {
        let word = ((*h / c) as usize) % bloom_words;
        bloom[word] |= 1u64 << (*h % c);
        let h2 = if shift < 32 { *h >> shift } else { 0 };
        bloom[word] |= 1u64 << (h2 % c);
        if buckets[*b] == 0 {
            buckets[*b] = (symoffset + k) as u32;
        }
        let last = k + 1 == hs.len() || hs[k + 1].0 != *b;
        chain[k] = (*h & !1) | if last { 1 } else { 0 };
    }
    let mut out = Vec::new();
    push_u32(&mut out, enc.order, nbucket as u32);
    push_u32(&mut out, enc.order, symoffset as u32);
    push_u32(&mut out, enc.order, bloom_words as u32);
    push_u32(&mut out, enc.order, shift);
    for w in bloom {
        push_word(&mut out, enc, w);
    }
    for b in buckets {
        push_u32(&mut out, enc.order, b);
    }
    for ch in chain {
        push_u32(&mut out, enc.order, ch);
    }
    let mut sym_names: Vec<Vec<u8>> = unhashed.to_vec();
    sym_names.extend(hs.into_iter().map(|x| x.2));
    GnuBuilt { section: out, sym_names, symoffset }
}

/// Reference SysV lookup over raw section bytes. `name_of(i)` = name of symbol i (None when the
/// symbol or its name cannot be read). Returns Err(()) when the table itself is malformed on the
/// path taken (the crate may return an error there); Ok(Some(i)) / Ok(None) otherwise.
pub fn ref_sysv_lookup(
    order: Order,
    sect: &[u8],
    name: &[u8],
    name_of: &dyn Fn(usize) -> Option<Vec<u8>>,
) -> Result<Option<usize>, ()> {
    if sect.len() < 8 {
        return Err(());
    }
    let nbucket = get(sect, 0, 4, order) as usize;
    let nchain = get(sect, 4, 4, order) as usize;
    let need = 8u128 + 4 * nbucket as u128 + 4 * nchain as u128;
    if need > sect.len() as u128 {
        return Err(());
    }
    if nbucket == 0 {
        return Ok(None);
    }
    let h = elf_hash(name) as usize;
    let mut idx = get(sect, 8 + 4 * (h % nbucket), 4, order) as usize;
    let mut steps = 0usize;
    while idx != 0 && steps < nchain {
        match name_of(idx) {
            None => return Err(()),
            Some(n) => {
                if n == name {
                    return Ok(Some(idx));
                }
            }
        }
        if idx >= nchain {
            return Err(());
        }
        idx = get(sect, 8 + 4 * nbucket + 4 * idx, 4, order) as usize;
        steps += 1;
    }
    Ok(None)
}

/// Reference GNU lookup over raw section bytes (same conventions as `ref_sysv_lookup`).
pub fn ref_gnu_lookup(
    enc: Enc,
    sect: &[u8],
    name: &[u8],
    name_of: &dyn Fn(usize) -> Option<Vec<u8>>,
) -> Result<Option<usize>, ()> {
    if sect.len() < 16 {
        return Err(());
    }
    let nbucket = get(sect, 0, 4, enc.order) as usize;
    let symoffset = get(sect, 4, 4, enc.order) as usize;
    let nbloom = get(sect, 8, 4, enc.order) as usize;
    let shift = get(sect, 12, 4, enc.order) as u32;
    let w = enc.word();
    let bloom_off = 16usize;
    let buckets_off = bloom_off as u128 + (nbloom as u128) * (w as u128);
    let chains_off = buckets_off + 4 * nbucket as u128;
    if chains_off > sect.len() as u128 {
        return Err(());
    }
    let buckets_off = buckets_off as usize;
    let chains_off = chains_off as usize;
    let nchain = (sect.len() - chains_off) / 4;
    if nbucket == 0 || nbloom == 0 {
        return Ok(None);
    }
    let h = gnu_hash(name);
    let c = (w * 8) as u32;
    let word = get(sect, bloom_off + w * (((h / c) as usize) % nbloom), w, enc.order);
    if word & (1u64 << (h % c)) == 0 {
        return Ok(None);
    }
    if shift >= 32 {
        return Err(());
    }
    if word & (1u64 << ((h >> shift) % c)) == 0 {
        return Ok(None);
    }
    let start = get(sect, buckets_off + 4 * ((h as usize) % nbucket), 4, enc.order) as usize;
    if start < symoffset {
        return Ok(None);
    }
    let mut ci = start - symoffset;
    while ci < nchain {
        let ch = get(sect, chains_off + 4 * ci, 4, enc.order) as u32;
        if (ch | 1) == (h | 1) {
            match name_of(ci + symoffset) {
                None => return Err(()),
                Some(n) => {
                    if n == name {
                        return Ok(Some(ci + symoffset));
                    }
                }
            }
        }
        if ch & 1 != 0 {
            break;
        }
        ci += 1;
    }
    Ok(None)
}
