//! Reference layouts of the on-disk ELF structures (gABI 4.1 + GNU extensions), transcribed from
//! the specification tables (DESIGN.md appendix A). Deliberately boring: explicit offset tables and
//! shift loops, no generics, no dependency on the crate under test.

#[derive(Clone, Copy, PartialEq, Eq, Debug, Hash)]
pub enum Class {
    C32,
    C64,
}

#[derive(Clone, Copy, PartialEq, Eq, Debug, Hash)]
pub enum Order {
    Lsb,
    Msb,
}

#[derive(Clone, Copy, PartialEq, Eq, Debug, Hash)]
pub struct Enc {
    pub class: Class,
    pub order: Order,
}

pub const ENCS: [Enc; 4] = [
    Enc { class: Class::C32, order: Order::Lsb },
    Enc { class: Class::C32, order: Order::Msb },
    Enc { class: Class::C64, order: Order::Lsb },
    Enc { class: Class::C64, order: Order::Msb },
];

impl Enc {
    pub fn name(&self) -> &'static str {
        match (self.class, self.order) {
            (Class::C32, Order::Lsb) => "ELF32-LSB",
            (Class::C32, Order::Msb) => "ELF32-MSB",
            (Class::C64, Order::Lsb) => "ELF64-LSB",
            (Class::C64, Order::Msb) => "ELF64-MSB",
        }
    }
    pub fn ei_class(&self) -> u8 {
        match self.class {
            Class::C32 => 1,
            Class::C64 => 2,
        }
    }
    pub fn ei_data(&self) -> u8 {
        match self.order {
            Order::Lsb => 1,
            Order::Msb => 2,
        }
    }
    /// width of an "address sized" word
    pub fn word(&self) -> usize {
        match self.class {
            Class::C32 => 4,
            Class::C64 => 8,
        }
    }
}

#[derive(Clone, Copy, Debug, PartialEq, Eq)]
pub struct Field {
    pub name: &'static str,
    pub off: usize,
    pub width: usize,
    pub signed: bool,
}

#[derive(Clone, Copy, Debug)]
pub struct Layout {
    pub name: &'static str,
    pub size: usize,
    pub fields: &'static [Field],
}

#[derive(Clone, Copy, PartialEq, Eq, Debug, Hash)]
pub enum Kind {
    Ehdr,
    Shdr,
    Phdr,
    Sym,
    Rel,
    Rela,
    Dyn,
    Chdr,
    Nhdr,
    SysvHdr,
    GnuHdr,
    Versym,
    Verdef,
    Verdaux,
    Verneed,
    Vernaux,
    AbiTag,
}

pub const KINDS: [Kind; 17] = [
    Kind::Ehdr,
    Kind::Shdr,
    Kind::Phdr,
    Kind::Sym,
    Kind::Rel,
    Kind::Rela,
    Kind::Dyn,
    Kind::Chdr,
    Kind::Nhdr,
    Kind::SysvHdr,
    Kind::GnuHdr,
    Kind::Versym,
    Kind::Verdef,
    Kind::Verdaux,
    Kind::Verneed,
    Kind::Vernaux,
    Kind::AbiTag,
];

const fn f(name: &'static str, off: usize, width: usize) -> Field {
    Field { name, off, width, signed: false }
}
const fn s(name: &'static str, off: usize, width: usize) -> Field {
    Field { name, off, width, signed: true }
}

// ---- Ehdr (incl. the ident bytes that carry information) ----
static EHDR32: [Field; 22] = [
    f("ei_mag0", 0, 1),
    f("ei_mag1", 1, 1),
    f("ei_mag2", 2, 1),
    f("ei_mag3", 3, 1),
    f("ei_class", 4, 1),
    f("ei_data", 5, 1),
    f("ei_version", 6, 1),
    f("ei_osabi", 7, 1),
    f("ei_abiversion", 8, 1),
    f("e_type", 16, 2),
    f("e_machine", 18, 2),
    f("e_version", 20, 4),
    f("e_entry", 24, 4),
    f("e_phoff", 28, 4),
    f("e_shoff", 32, 4),
    f("e_flags", 36, 4),
    f("e_ehsize", 40, 2),
    f("e_phentsize", 42, 2),
    f("e_phnum", 44, 2),
    f("e_shentsize", 46, 2),
    f("e_shnum", 48, 2),
    f("e_shstrndx", 50, 2),
];
static EHDR64: [Field; 22] = [
    f("ei_mag0", 0, 1),
    f("ei_mag1", 1, 1),
    f("ei_mag2", 2, 1),
    f("ei_mag3", 3, 1),
    f("ei_class", 4, 1),
    f("ei_data", 5, 1),
    f("ei_version", 6, 1),
    f("ei_osabi", 7, 1),
    f("ei_abiversion", 8, 1),
    f("e_type", 16, 2),
    f("e_machine", 18, 2),
    f("e_version", 20, 4),
    f("e_entry", 24, 8),
    f("e_phoff", 32, 8),
    f("e_shoff", 40, 8),
    f("e_flags", 48, 4),
    f("e_ehsize", 52, 2),
    f("e_phentsize", 54, 2),
    f("e_phnum", 56, 2),
    f("e_shentsize", 58, 2),
    f("e_shnum", 60, 2),
    f("e_shstrndx", 62, 2),
];

static SHDR32: [Field; 10] = [
    f("sh_name", 0, 4),
    f("sh_type", 4, 4),
    f("sh_flags", 8, 4),
    f("sh_addr", 12, 4),
    f("sh_offset", 16, 4),
    f("sh_size", 20, 4),
    f("sh_link", 24, 4),
    f("sh_info", 28, 4),
    f("sh_addralign", 32, 4),
    f("sh_entsize", 36, 4),
];
static SHDR64: [Field; 10] = [
    f("sh_name", 0, 4),
    f("sh_type", 4, 4),
    f("sh_flags", 8, 8),
    f("sh_addr", 16, 8),
    f("sh_offset", 24, 8),
    f("sh_size", 32, 8),
    f("sh_link", 40, 4),
    f("sh_info", 44, 4),
    f("sh_addralign", 48, 8),
    f("sh_entsize", 56, 8),
];

// Field order of the Phdr tables is the *logical* order (type, offset, vaddr, paddr, filesz,
// memsz, flags, align) for both classes; only the offsets differ.
static PHDR32: [Field; 8] = [
    f("p_type", 0, 4),
    f("p_offset", 4, 4),
    f("p_vaddr", 8, 4),
    f("p_paddr", 12, 4),
    f("p_filesz", 16, 4),
    f("p_memsz", 20, 4),
    f("p_flags", 24, 4),
    f("p_align", 28, 4),
];
static PHDR64: [Field; 8] = [
    f("p_type", 0, 4),
    f("p_offset", 8, 8),
    f("p_vaddr", 16, 8),
    f("p_paddr", 24, 8),
    f("p_filesz", 32, 8),
    f("p_memsz", 40, 8),
    f("p_flags", 4, 4),
    f("p_align", 48, 8),
];

// logical order: name, value, size, info, other, shndx
static SYM32: [Field; 6] = [
    f("st_name", 0, 4),
    f("st_value", 4, 4),
    f("st_size", 8, 4),
    f("st_info", 12, 1),
    f("st_other", 13, 1),
    f("st_shndx", 14, 2),
];
static SYM64: [Field; 6] = [
    f("st_name", 0, 4),
    f("st_value", 8, 8),
    f("st_size", 16, 8),
    f("st_info", 4, 1),
    f("st_other", 5, 1),
    f("st_shndx", 6, 2),
];

static REL32: [Field; 2] = [f("r_offset", 0, 4), f("r_info", 4, 4)];
static REL64: [Field; 2] = [f("r_offset", 0, 8), f("r_info", 8, 8)];
static RELA32: [Field; 3] = [f("r_offset", 0, 4), f("r_info", 4, 4), s("r_addend", 8, 4)];
static RELA64: [Field; 3] = [f("r_offset", 0, 8), f("r_info", 8, 8), s("r_addend", 16, 8)];
static DYN32: [Field; 2] = [s("d_tag", 0, 4), f("d_un", 4, 4)];
static DYN64: [Field; 2] = [s("d_tag", 0, 8), f("d_un", 8, 8)];
// logical order: type, size, addralign (ch_reserved of ELF64 is not a value-carrying field)
static CHDR32: [Field; 3] = [f("ch_type", 0, 4), f("ch_size", 4, 4), f("ch_addralign", 8, 4)];
static CHDR64: [Field; 3] = [f("ch_type", 0, 4), f("ch_size", 8, 8), f("ch_addralign", 16, 8)];
static NHDR: [Field; 3] = [f("n_namesz", 0, 4), f("n_descsz", 4, 4), f("n_type", 8, 4)];
static SYSVHDR: [Field; 2] = [f("nbucket", 0, 4), f("nchain", 4, 4)];
static GNUHDR: [Field; 4] = [
    f("nbucket", 0, 4),
    f("symoffset", 4, 4),
    f("bloom_size", 8, 4),
    f("bloom_shift", 12, 4),
];
static VERSYM: [Field; 1] = [f("versym", 0, 2)];
static VERDEF: [Field; 7] = [
    f("vd_version", 0, 2),
    f("vd_flags", 2, 2),
    f("vd_ndx", 4, 2),
    f("vd_cnt", 6, 2),
    f("vd_hash", 8, 4),
    f("vd_aux", 12, 4),
    f("vd_next", 16, 4),
];
static VERDAUX: [Field; 2] = [f("vda_name", 0, 4), f("vda_next", 4, 4)];
static VERNEED: [Field; 5] = [
    f("vn_version", 0, 2),
    f("vn_cnt", 2, 2),
    f("vn_file", 4, 4),
    f("vn_aux", 8, 4),
    f("vn_next", 12, 4),
];
static VERNAUX: [Field; 5] = [
    f("vna_hash", 0, 4),
    f("vna_flags", 4, 2),
    f("vna_other", 6, 2),
    f("vna_name", 8, 4),
    f("vna_next", 12, 4),
];
static ABITAG: [Field; 4] = [f("os", 0, 4), f("major", 4, 4), f("minor", 8, 4), f("subminor", 12, 4)];

pub fn layout(kind: Kind, class: Class) -> Layout {
    let c64 = class == Class::C64;
    match kind {
        Kind::Ehdr => {
            if c64 {
                Layout { name: "Ehdr", size: 64, fields: &EHDR64 }
            } else {
                Layout { name: "Ehdr", size: 52, fields: &EHDR32 }
            }
        }
        Kind::Shdr => {
            if c64 {
                Layout { name: "Shdr", size: 64, fields: &SHDR64 }
            } else {
                Layout { name: "Shdr", size: 40, fields: &SHDR32 }
            }
        }
        Kind::Phdr => {
            if c64 {
                Layout { name: "Phdr", size: 56, fields: &PHDR64 }
            } else {
                Layout { name: "Phdr", size: 32, fields: &PHDR32 }
            }
        }
        Kind::Sym => {
            if c64 {
                Layout { name: "Sym", size: 24, fields: &SYM64 }
            } else {
                Layout { name: "Sym", size: 16, fields: &SYM32 }
            }
        }
        Kind::Rel => {
            if c64 {
                Layout { name: "Rel", size: 16, fields: &REL64 }
            } else {
                Layout { name: "Rel", size: 8, fields: &REL32 }
            }
        }
        Kind::Rela => {
            if c64 {
                Layout { name: "Rela", size: 24, fields: &RELA64 }
            } else {
                Layout { name: "Rela", size: 12, fields: &RELA32 }
            }
        }
        Kind::Dyn => {
            if c64 {
                Layout { name: "Dyn", size: 16, fields: &DYN64 }
            } else {
                Layout { name: "Dyn", size: 8, fields: &DYN32 }
            }
        }
        Kind::Chdr => {
            if c64 {
                Layout { name: "Chdr", size: 24, fields: &CHDR64 }
            } else {
                Layout { name: "Chdr", size: 12, fields: &CHDR32 }
            }
        }
        Kind::Nhdr => Layout { name: "Nhdr", size: 12, fields: &NHDR },
        Kind::SysvHdr => Layout { name: "SysvHashHdr", size: 8, fields: &SYSVHDR },
        Kind::GnuHdr => Layout { name: "GnuHashHdr", size: 16, fields: &GNUHDR },
        Kind::Versym => Layout { name: "Versym", size: 2, fields: &VERSYM },
        Kind::Verdef => Layout { name: "Verdef", size: 20, fields: &VERDEF },
        Kind::Verdaux => Layout { name: "Verdaux", size: 8, fields: &VERDAUX },
        Kind::Verneed => Layout { name: "Verneed", size: 16, fields: &VERNEED },
        Kind::Vernaux => Layout { name: "Vernaux", size: 16, fields: &VERNAUX },
        Kind::AbiTag => Layout { name: "AbiTagDesc", size: 16, fields: &ABITAG },
    }
}

/// Store the low `width` bytes of `value` at `off` in byte order `order`.
pub fn put(buf: &mut [u8], off: usize, width: usize, order: Order, value: u64) {
    let mut i = 0;
    while i < width {
        let shift = 8 * i as u32;
        let byte = if shift < 64 { ((value >> shift) & 0xff) as u8 } else { 0 };
        match order {
            Order::Lsb => buf[off + i] = byte,
            Order::Msb => buf[off + width - 1 - i] = byte,
        }
        i += 1;
    }
}

/// Read an unsigned `width`-byte integer at `off` (shift-accumulate).
pub fn get(buf: &[u8], off: usize, width: usize, order: Order) -> u64 {
    let mut v: u64 = 0;
    let mut i = 0;
    while i < width {
        let byte = match order {
            Order::Lsb => buf[off + width - 1 - i],
            Order::Msb => buf[off + i],
        };
        v = (v << 8) | byte as u64;
        i += 1;
    }
    v
}

/// Sign- or zero-extend the low `width` bytes of `raw` to 64 bits (returned as a bit pattern).
pub fn extend(raw: u64, width: usize, signed: bool) -> u64 {
    if width >= 8 {
        return raw;
    }
    let bits = 8 * width as u32;
    let mask = (1u64 << bits) - 1;
    let v = raw & mask;
    if signed && (v >> (bits - 1)) & 1 == 1 {
        v | !mask
    } else {
        v
    }
}

/// Truncate to the field width.
pub fn trunc(raw: u64, width: usize) -> u64 {
    if width >= 8 {
        raw
    } else {
        raw & ((1u64 << (8 * width as u32)) - 1)
    }
}

/// Encode one structure. `values[i]` belongs to `layout.fields[i]`; bytes that belong to no field
/// are set to `fill`.
pub fn encode(kind: Kind, enc: Enc, values: &[u64], fill: u8) -> Vec<u8> {
    let l = layout(kind, enc.class);
    assert_eq!(values.len(), l.fields.len(), "value count for {}", l.name);
    let mut buf = vec![fill; l.size];
    for (fld, v) in l.fields.iter().zip(values.iter()) {
        put(&mut buf, fld.off, fld.width, enc.order, *v);
    }
    buf
}

/// Decode one structure at `off`; the result is extended to 64 bits per the field's signedness.
pub fn decode(kind: Kind, enc: Enc, bytes: &[u8], off: usize) -> Vec<u64> {
    let l = layout(kind, enc.class);
    l.fields
        .iter()
        .map(|fld| extend(get(bytes, off + fld.off, fld.width, enc.order), fld.width, fld.signed))
        .collect()
}

pub fn field_index(kind: Kind, class: Class, name: &str) -> usize {
    layout(kind, class)
        .fields
        .iter()
        .position(|f| f.name == name)
        .unwrap_or_else(|| panic!("no field {name}"))
}

// ---- packed-field macros of the ABI ----
pub fn elf32_r_sym(info: u64) -> u64 {
    (info & 0xffff_ffff) >> 8
}
pub fn elf32_r_type(info: u64) -> u64 {
    info & 0xff
}
pub fn elf64_r_sym(info: u64) -> u64 {
    info >> 32
}
pub fn elf64_r_type(info: u64) -> u64 {
    info & 0xffff_ffff
}
pub fn st_bind(info: u8) -> u8 {
    info >> 4
}
pub fn st_type(info: u8) -> u8 {
    info & 0xf
}
pub fn st_visibility(other: u8) -> u8 {
    other & 3
}

// ---- a few ABI numbers the builders need (from the gABI, not from the crate) ----
pub const SHT_NULL: u32 = 0;
pub const SHT_PROGBITS: u32 = 1;
pub const SHT_SYMTAB: u32 = 2;
pub const SHT_STRTAB: u32 = 3;
pub const SHT_RELA: u32 = 4;
pub const SHT_HASH: u32 = 5;
pub const SHT_DYNAMIC: u32 = 6;
pub const SHT_NOTE: u32 = 7;
pub const SHT_NOBITS: u32 = 8;
pub const SHT_REL: u32 = 9;
pub const SHT_DYNSYM: u32 = 11;
pub const SHT_GNU_HASH: u32 = 0x6fff_fff6;
pub const SHT_GNU_VERDEF: u32 = 0x6fff_fffd;
pub const SHT_GNU_VERNEED: u32 = 0x6fff_fffe;
pub const SHT_GNU_VERSYM: u32 = 0x6fff_ffff;
pub const SHF_COMPRESSED: u64 = 0x800;
pub const PT_NULL: u32 = 0;
pub const PT_LOAD: u32 = 1;
pub const PT_DYNAMIC: u32 = 2;
pub const PT_NOTE: u32 = 4;
pub const SHN_LORESERVE: u64 = 0xff00;
pub const SHN_XINDEX: u64 = 0xffff;
pub const PN_XNUM: u64 = 0xffff;
