//! Counting global allocator + `subject()` wrapper that marks "crate code is running".
//!
//! Only requests made while the current thread is inside `subject()` are counted. A request
//! above the current limit is refused (null) after a non-allocating note on stderr; the
//! standard library then aborts the process and the controller attributes the abort.

use std::alloc::{GlobalAlloc, Layout, System};
use std::cell::Cell;
use std::panic::{catch_unwind, AssertUnwindSafe};
use std::sync::atomic::{AtomicU64, Ordering};

pub struct Counting;

thread_local! {
    static IN_SUBJECT: Cell<bool> = const { Cell::new(false) };
    static CALLS: Cell<u64> = const { Cell::new(0) };
    static MAX_REQ: Cell<u64> = const { Cell::new(0) };
    static LIMIT: Cell<u64> = const { Cell::new(u64::MAX) };
    static PANIC_MSG: Cell<Option<String>> = const { Cell::new(None) };
}

/// index of the case being executed (for the stderr note and the watchdog)
pub static CUR_CASE: AtomicU64 = AtomicU64::new(u64::MAX);
pub static CUR_SPACE: AtomicU64 = AtomicU64::new(0);
pub static CASE_STAMP: AtomicU64 = AtomicU64::new(0);

fn note_oversize(size: u64) {
    // non-allocating decimal formatting
    let mut buf = [0u8; 96];
    let mut n = 0;
    let put = |buf: &mut [u8; 96], n: &mut usize, s: &[u8]| {
        for &b in s {
            if *n < 96 {
                buf[*n] = b;
                *n += 1;
            }
        }
    };
    let num = |buf: &mut [u8; 96], n: &mut usize, mut v: u64| {
        let mut d = [0u8; 20];
        let mut k = 0;
        if v == 0 {
            d[0] = b'0';
            k = 1;
        }
        while v > 0 {
            d[k] = b'0' + (v % 10) as u8;
            v /= 10;
            k += 1;
        }
        while k > 0 {
            k -= 1;
            if *n < 96 {
                buf[*n] = d[k];
                *n += 1;
            }
        }
    };
    put(&mut buf, &mut n, b"ALLOC-VIOLATION space=");
    num(&mut buf, &mut n, CUR_SPACE.load(Ordering::Relaxed));
    put(&mut buf, &mut n, b" idx=");
    num(&mut buf, &mut n, CUR_CASE.load(Ordering::Relaxed));
    put(&mut buf, &mut n, b" size=");
    num(&mut buf, &mut n, size);
    put(&mut buf, &mut n, b"\n");
    unsafe {
        libc::write(2, buf.as_ptr() as *const libc::c_void, n);
    }
}

#[inline]
fn account(size: usize) -> bool {
    // returns false when the request must be refused
    let inside = IN_SUBJECT.try_with(|c| c.get()).unwrap_or(false);
    if !inside {
        return true;
    }
    let _ = CALLS.try_with(|c| c.set(c.get() + 1));
    let _ = MAX_REQ.try_with(|c| {
        if size as u64 > c.get() {
            c.set(size as u64)
        }
    });
    let limit = LIMIT.try_with(|c| c.get()).unwrap_or(u64::MAX);
    if size as u64 > limit {
        note_oversize(size as u64);
        return false;
    }
    true
}

unsafe impl GlobalAlloc for Counting {
    unsafe fn alloc(&self, layout: Layout) -> *mut u8 {
        if !account(layout.size()) {
            return std::ptr::null_mut();
        }
        System.alloc(layout)
    }
    unsafe fn dealloc(&self, ptr: *mut u8, layout: Layout) {
        System.dealloc(ptr, layout)
    }
    unsafe fn alloc_zeroed(&self, layout: Layout) -> *mut u8 {
        if !account(layout.size()) {
            return std::ptr::null_mut();
        }
        System.alloc_zeroed(layout)
    }
    unsafe fn realloc(&self, ptr: *mut u8, layout: Layout, new_size: usize) -> *mut u8 {
        if !account(new_size) {
            return std::ptr::null_mut();
        }
        System.realloc(ptr, layout, new_size)
    }
}

pub fn install_panic_hook() {
    std::panic::set_hook(Box::new(|info| {
        let was = IN_SUBJECT.with(|c| c.replace(false));
        let msg = format!("{}", info);
        if was {
            PANIC_MSG.with(|c| c.set(Some(msg)));
            IN_SUBJECT.with(|c| c.set(true));
        } else if msg.contains("runaway I/O loop") {
            // raised by the scripted reader on behalf of a spinning caller: it unwinds through crate
            // code and is reported by subject() as that call's panic
            PANIC_MSG.with(|c| c.set(Some(msg)));
        } else {
            eprintln!("HARNESS PANIC: {}", msg);
        }
    }));
}

/// Snapshot of the allocation counters of this thread.
#[derive(Clone, Copy, Debug, Default)]
pub struct AllocStats {
    pub calls: u64,
    pub max_req: u64,
}

pub fn reset_stats() {
    CALLS.with(|c| c.set(0));
    MAX_REQ.with(|c| c.set(0));
}
pub fn stats() -> AllocStats {
    AllocStats { calls: CALLS.with(|c| c.get()), max_req: MAX_REQ.with(|c| c.get()) }
}
/// Refuse in-subject requests above `limit` bytes (u64::MAX = no limit).
pub fn set_limit(limit: u64) {
    LIMIT.with(|c| c.set(limit));
}

/// Run crate code: allocation accounting on, panics caught. Err(message) on panic.
pub fn subject<T>(f: impl FnOnce() -> T) -> Result<T, String> {
    let prev = IN_SUBJECT.with(|c| c.replace(true));
    let r = catch_unwind(AssertUnwindSafe(f));
    IN_SUBJECT.with(|c| c.set(prev));
    match r {
        Ok(v) => Ok(v),
        Err(_) => Err(PANIC_MSG.with(|c| c.take()).unwrap_or_else(|| "panic (no message)".to_string())),
    }
}

/// Run harness code from inside a subject call (reader callbacks): accounting off.
pub fn outside<T>(f: impl FnOnce() -> T) -> T {
    let prev = IN_SUBJECT.with(|c| c.replace(false));
    let r = f();
    IN_SUBJECT.with(|c| c.set(prev));
    r
}
