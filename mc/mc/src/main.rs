fn main() { refmodel::hello(); }
