//! rust-elf bounded-exhaustive checker. See /verif/DESIGN.md.
#![allow(dead_code)]
mod alloc;
mod driver;
mod framework;
mod lattice;
mod skeleton;
mod stream;
mod props;
mod util;

use framework::Tier;

#[global_allocator]
static GLOBAL: alloc::Counting = alloc::Counting;

fn usage() -> ! {
    eprintln!("usage: mc check <Cxx> [--tier quick|thorough] | mc replay <file> | mc worker ... | mc list");
    std::process::exit(2)
}

fn main() {
    let args: Vec<String> = std::env::args().collect();
    if args.len() < 2 {
        usage();
    }
    match args[1].as_str() {
        "check" => {
            if args.len() < 3 {
                usage();
            }
            let prop = args[2].clone();
            let mut tier = std::env::var("VERIF_TIER").ok().map(|t| Tier::parse(&t)).unwrap_or(Tier::Quick);
            let mut i = 3;
            while i < args.len() {
                if args[i] == "--tier" && i + 1 < args.len() {
                    tier = Tier::parse(&args[i + 1]);
                    i += 1;
                }
                i += 1;
            }
            let def = match props::build(&prop, tier) {
                Some(d) => d,
                None => {
                    eprintln!("unknown property {prop}");
                    std::process::exit(2)
                }
            };
            std::process::exit(framework::controller_main(&def, tier));
        }
        "worker" => {
            // worker <prop> <tier> <space> <a> <b> <out>
            if args.len() < 8 {
                usage();
            }
            let tier = Tier::parse(&args[3]);
            let def = props::build(&args[2], tier).expect("property");
            let code = framework::worker_main(
                &def,
                args[4].parse().unwrap(),
                args[5].parse().unwrap(),
                args[6].parse().unwrap(),
                &args[7],
            );
            std::process::exit(code);
        }
        "replay" => {
            if args.len() < 3 {
                usage();
            }
            let txt = std::fs::read_to_string(&args[2]).expect("read replay file");
            let v: serde_json::Value = serde_json::from_str(&txt).expect("replay json");
            let prop = v["property"].as_str().expect("property");
            let tier = Tier::parse(v["tier"].as_str().unwrap_or("quick"));
            let def = props::build(prop, tier).expect("property");
            let code = framework::replay_main(&def, v["space"].as_u64().unwrap() as usize, v["case"].as_u64().unwrap(), v["detail"].as_str().unwrap_or(""));
            std::process::exit(code);
        }
        "dump" => {
            // mc dump <dir>: write the generated skeletons to disk (self-validation with readelf)
            let dir = std::path::PathBuf::from(&args[2]);
            std::fs::create_dir_all(&dir).expect("mkdir");
            let mut all = skeleton::tiny_skeletons();
            all.extend(skeleton::small_shapes());
            all.extend(skeleton::extnum_shapes());
            for e in refmodel::layout::ENCS {
                all.extend(skeleton::rotated_skeletons(e).into_iter().step_by(9));
            }
            for sk in all {
                let name = sk.name.replace('/', "_").replace('=', "-");
                std::fs::write(dir.join(name), &sk.bytes).expect("write");
            }
        }
        "audit" => {
            println!("{}", serde_json::to_string_pretty(&props::surface_audit()).unwrap());
        }
        "list" => {
            for p in props::ALL {
                println!("{p}");
            }
        }
        _ => usage(),
    }
}
