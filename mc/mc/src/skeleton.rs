//! Skeleton images for the lattice engine: "tiny-full" objects containing every construct the
//! crate understands, header-only shapes, extended-numbering shapes, and the repository samples.

use refmodel::hashes::*;
use refmodel::image::*;
use refmodel::layout::*;
use refmodel::notes::*;
use refmodel::symver::*;

#[derive(Clone)]
pub struct Skeleton {
    pub name: String,
    pub enc: Enc,
    pub bytes: Vec<u8>,
    pub sites: Vec<Site>,
    /// built by the reference builders (ground truth known) or a foreign sample
    pub generated: bool,
}

fn le_words(enc: Enc, vals: &[u64], width: usize) -> Vec<u8> {
    let mut out = vec![0u8; vals.len() * width];
    for (i, v) in vals.iter().enumerate() {
        put(&mut out, i * width, width, enc.order, *v);
    }
    out
}

/// Section indexes of the tiny-full skeleton (final numbering).
pub mod idx {
    pub const DATA: usize = 1;
    pub const DYNSYM: usize = 2;
    pub const DYNSTR: usize = 3;
    pub const VERSYM: usize = 4;
    pub const VERNEED: usize = 5;
    pub const VERDEF: usize = 6;
    pub const HASH: usize = 7;
    pub const GNUHASH: usize = 8;
    pub const DYNAMIC: usize = 9;
    pub const NOTE_A: usize = 10;
    pub const NOTE_B: usize = 11;
    pub const REL: usize = 12;
    pub const RELA: usize = 13;
    pub const SYMTAB: usize = 14;
    pub const STRTAB: usize = 15;
    pub const ZDEBUG: usize = 16;
    pub const BSS: usize = 17;
    pub const EMPTY: usize = 18;
    pub const VERSTR: usize = 19;
    pub const SHSTRTAB: usize = 20;
}

pub struct TinyTruth {
    pub dyn_names: Vec<Vec<u8>>,
    pub sym_names: Vec<Vec<u8>>,
    pub symoffset: usize,
    pub ver: VerModel,
}

pub fn tiny_spec(enc: Enc, order: TableOrder) -> (Spec, TinyTruth) {
    let mut spec = Spec::new(enc, order);
    let symsz = layout(Kind::Sym, enc.class).size as u64;
    let dynsz = layout(Kind::Dyn, enc.class).size as u64;
    let relsz = layout(Kind::Rel, enc.class).size as u64;
    let relasz = layout(Kind::Rela, enc.class).size as u64;

    // dynamic symbols: null + one unhashed local + three hashed
    let unhashed: Vec<Vec<u8>> = vec![b"".to_vec(), b"loc".to_vec()];
    let hashed: Vec<Vec<u8>> = vec![b"memset".to_vec(), b"ab".to_vec(), b"bA".to_vec()];
    let g = build_gnu(enc, &unhashed, &hashed, 2, 1, 5);
    let dyn_names = g.sym_names.clone();
    let (mut dynstr, dyn_offs) = build_strtab(&dyn_names);
    let dynsym = build_symtab(enc, &dyn_offs);
    let sysv = build_sysv(enc.order, &dyn_names, 2);

    // version model; the strings of verneed live in .dynstr, those of verdef in a separate table
    let ver = VerModel {
        needs: vec![
            Need {
                file: b"libc.so.6".to_vec(),
                auxes: vec![
                    Aux { name: b"GLIBC_2.2.5".to_vec(), hash: 0x09691a75, flags: 0, other: 3 },
                    Aux { name: b"GLIBC_2.34".to_vec(), hash: 0x069691b4, flags: 2, other: 4 },
                ],
            },
            Need {
                file: b"libm.so.6".to_vec(),
                auxes: vec![
                    Aux { name: b"GLIBC_2.29".to_vec(), hash: 0x06969189, flags: 0, other: 5 },
                    Aux { name: b"GLIBC_2.2.5".to_vec(), hash: 0x09691a75, flags: 0, other: 6 },
                ],
            },
        ],
        defs: vec![
            Def { ndx: 1, flags: 1, hash: 0x0b5f3e2e, names: vec![b"libtiny.so".to_vec()] },
            Def { ndx: 2, flags: 0, hash: 0x0d696910, names: vec![b"TINY_1.0".to_vec(), b"TINY_0.9".to_vec()] },
        ],
        versym: vec![0, 1, 2, 3, 0x8004],
    };
    let mut need_strs = StrTab { bytes: dynstr.clone() };
    let verneed = build_verneed(enc, &ver.needs, VerLayout::Contiguous, &mut need_strs);
    dynstr = need_strs.bytes;
    let mut def_strs = StrTab::new();
    let verdef = build_verdef(enc, &ver.defs, VerLayout::AuxAfterHeads, &mut def_strs);
    let versym = build_versym(enc.order, &ver.versym);

    // .dynamic: DT_NEEDED, DT_HASH, a negative tag, DT_NULL
    let mut dynamic = Vec::new();
    for (tag, val) in [(1u64, 1u64), (14, 1), (0xffff_ffff_ffff_fffdu64, 7), (0, 0)] {
        dynamic.extend_from_slice(&encode(Kind::Dyn, enc, &[tag, val], 0));
    }

    let note_a = build_notes(
        enc.order,
        4,
        &[
            NoteSpec { n_type: 1, name: b"GNU\0".to_vec(), desc: le_words(enc, &[0, 2, 6, 32], 4) },
            NoteSpec { n_type: 3, name: b"GNU\0".to_vec(), desc: vec![0xde, 0xad, 0xbe, 0xef, 0x01] },
            NoteSpec { n_type: 0x42, name: b"XY\0".to_vec(), desc: vec![1, 2, 3] },
        ],
        0,
    );
    let note_b = build_notes(
        enc.order,
        8,
        &[
            NoteSpec { n_type: 0x101, name: b"GNU\0".to_vec(), desc: vec![9, 9, 9, 9, 9, 9, 9, 9, 9, 9, 9, 9] },
            NoteSpec { n_type: 3, name: b"GNU\0".to_vec(), desc: vec![0xaa; 20] },
        ],
        0,
    );

    let mut rel = Vec::new();
    for (o, info) in [(0x1000u64, 0x0000_0102u64), (0x1008, 0x0000_0207)] {
        let info = if enc.class == Class::C64 { ((info >> 8) << 32) | (info & 0xff) } else { info };
        rel.extend_from_slice(&encode(Kind::Rel, enc, &[o, info], 0));
    }
    let mut rela = Vec::new();
    for (o, info, add) in [(0x2000u64, 0x0000_0101u64, 0xffff_ffff_ffff_fffcu64), (0x2008, 0x0000_0305, 16)] {
        let info = if enc.class == Class::C64 { ((info >> 8) << 32) | (info & 0xff) } else { info };
        rela.extend_from_slice(&encode(Kind::Rela, enc, &[o, info, add], 0));
    }

    let sym_names: Vec<Vec<u8>> =
        vec![b"".to_vec(), b"main".to_vec(), b"loc".to_vec(), b"memset".to_vec(), b"caf\xc3\xa9".to_vec()];
    let (strtab, sym_offs) = build_strtab(&sym_names);
    let symtab = build_symtab(enc, &sym_offs);

    let mut zdebug = encode(Kind::Chdr, enc, &[1, 100, 8], 0);
    zdebug.extend_from_slice(&[0x78, 0x9c, 1, 2, 3, 4, 5]);

    use idx::*;
    let secs = vec![
        Sec::new(b".data", SHT_PROGBITS, vec![0x11, 0x22, 0x33, 0x44, 0x55]).flags(3),
        Sec::new(b".dynsym", SHT_DYNSYM, dynsym).link(DYNSTR as u32).info(2).entsize(symsz).deep_words(4, 64),
        Sec::new(b".dynstr", SHT_STRTAB, dynstr),
        Sec::new(b".gnu.version", SHT_GNU_VERSYM, versym).link(DYNSYM as u32).entsize(2).deep_words(2, 64),
        Sec::new(b".gnu.version_r", SHT_GNU_VERNEED, verneed).link(DYNSTR as u32).info(2).deep_words(2, 64),
        Sec::new(b".gnu.version_d", SHT_GNU_VERDEF, verdef).link(VERSTR as u32).info(2).deep_words(2, 64),
        Sec::new(b".hash", SHT_HASH, sysv).link(DYNSYM as u32).entsize(4).deep_words(4, 64),
        Sec::new(b".gnu.hash", SHT_GNU_HASH, g.section.clone()).link(DYNSYM as u32).deep_words(4, 64),
        Sec::new(b".dynamic", SHT_DYNAMIC, dynamic).link(DYNSTR as u32).entsize(dynsz).deep_words(enc.word(), 64),
        Sec::new(b".note.a", SHT_NOTE, note_a).addralign(4).deep_words(4, 64),
        Sec::new(b".note.b", SHT_NOTE, note_b).addralign(8).deep_words(4, 64),
        Sec::new(b".rel.x", SHT_REL, rel).link(SYMTAB as u32).info(DATA as u32).entsize(relsz),
        Sec::new(b".rela.x", SHT_RELA, rela).link(SYMTAB as u32).info(DATA as u32).entsize(relasz),
        Sec::new(b".symtab", SHT_SYMTAB, symtab).link(STRTAB as u32).info(3).entsize(symsz),
        Sec::new(b".strtab", SHT_STRTAB, strtab),
        Sec::new(b".zdebug", SHT_PROGBITS, zdebug).flags(SHF_COMPRESSED),
        Sec::new(b".bss", SHT_NOBITS, Vec::new()).place(Place::Claim { offset: 0x10_0000, size: 0x4000 }).flags(3),
        Sec::new(b".empty", SHT_PROGBITS, Vec::new()),
        Sec::new(b".verstr", SHT_STRTAB, def_strs.bytes.clone()),
    ];
    spec.secs = secs;
    spec.segs = vec![
        Seg { p_type: PT_LOAD, flags: 5, vaddr: 0, paddr: 0, align: 0x1000, memsz_extra: 0x100, target: SegTarget::Range { offset: 0, filesz: 0x700 } },
        Seg { p_type: PT_DYNAMIC, flags: 6, vaddr: 0, paddr: 0, align: 8, memsz_extra: 0, target: SegTarget::Section(DYNAMIC) },
        Seg { p_type: PT_NOTE, flags: 4, vaddr: 0, paddr: 0, align: 4, memsz_extra: 4, target: SegTarget::Section(NOTE_A) },
        Seg { p_type: PT_NOTE, flags: 4, vaddr: 0, paddr: 0, align: 8, memsz_extra: 0, target: SegTarget::Section(NOTE_B) },
    ];
    (spec, TinyTruth { dyn_names, sym_names, symoffset: g.symoffset, ver })
}

pub fn tiny_full(enc: Enc, order: TableOrder) -> (Built, TinyTruth) {
    let (mut spec, truth) = tiny_spec(enc, order);
    let b0 = build(&spec);
    // the zero-length section sits exactly at end of file
    let l = b0.bytes.len() as u64;
    spec.secs[idx::EMPTY - 1].place = Place::Claim { offset: l, size: 0 };
    let b = build(&spec);
    assert_eq!(b.bytes.len() as u64, l);
    assert_eq!(b.shnum, idx::SHSTRTAB + 1);
    (b, truth)
}

pub fn tiny_skeletons() -> Vec<Skeleton> {
    let mut v = Vec::new();
    for enc in ENCS {
        for (o, on) in [(TableOrder::TablesFirst, "tables-first"), (TableOrder::Linker, "linker-order")] {
            let (b, _) = tiny_full(enc, o);
            v.push(Skeleton { name: format!("tiny-full/{}/{}", enc.name(), on), enc, bytes: b.bytes, sites: b.sites, generated: true });
        }
    }
    v
}

/// header-only, phdrs-only and shdrs-only shapes
pub fn small_shapes() -> Vec<Skeleton> {
    let mut v = Vec::new();
    for enc in ENCS {
        // header only
        let mut s = Spec::new(enc, TableOrder::TablesFirst);
        s.no_shdrs = true;
        let b = build(&s);
        v.push(Skeleton { name: format!("header-only/{}", enc.name()), enc, bytes: b.bytes, sites: b.sites, generated: true });
        // phdrs only (PT_DYNAMIC reachable without section headers)
        let mut s = Spec::new(enc, TableOrder::TablesFirst);
        s.no_shdrs = true;
        let dynsz = layout(Kind::Dyn, enc.class).size as u64;
        let ehsz = layout(Kind::Ehdr, enc.class).size as u64;
        let phsz = layout(Kind::Phdr, enc.class).size as u64;
        // addresses as a linker assigns them: one PT_LOAD maps the whole file at 0x10000, the other
        // segments' addresses follow from their offsets
        s.segs = vec![
            Seg { p_type: PT_DYNAMIC, flags: 6, vaddr: 0x10000 + ehsz + 3 * phsz, paddr: 0, align: 8, memsz_extra: 0, target: SegTarget::Range { offset: ehsz + 3 * phsz, filesz: 2 * dynsz } },
            Seg { p_type: PT_NOTE, flags: 4, vaddr: 0x10000 + ehsz + 3 * phsz + 2 * dynsz, paddr: 0, align: 4, memsz_extra: 1, target: SegTarget::Range { offset: ehsz + 3 * phsz + 2 * dynsz, filesz: 20 } },
            Seg { p_type: PT_LOAD, flags: 5, vaddr: 0x10000, paddr: 0, align: 0x1000, memsz_extra: 0, target: SegTarget::Range { offset: 0, filesz: ehsz + 3 * phsz + 2 * dynsz + 20 } },
        ];
        let mut b = build(&s);
        let mut body = Vec::new();
        body.extend_from_slice(&encode(Kind::Dyn, enc, &[1, 5], 0));
        body.extend_from_slice(&encode(Kind::Dyn, enc, &[0, 0], 0));
        body.extend_from_slice(&build_notes(enc.order, 4, &[NoteSpec { n_type: 3, name: b"GNU\0".to_vec(), desc: vec![1, 2, 3, 4] }], 0));
        b.bytes.extend_from_slice(&body);
        v.push(Skeleton { name: format!("phdrs-only/{}", enc.name()), enc, bytes: b.bytes, sites: b.sites, generated: true });
        // the same with a PT_DYNAMIC that designates only the first of three entries: no DT_NULL
        // inside the segment, more entries and the terminator right behind it
        {
            let mut s = Spec::new(enc, TableOrder::TablesFirst);
            s.no_shdrs = true;
            s.segs = vec![Seg { p_type: PT_DYNAMIC, flags: 6, vaddr: 0, paddr: 0, align: 8, memsz_extra: 0, target: SegTarget::Range { offset: ehsz + phsz, filesz: dynsz } }];
            let mut b = build(&s);
            for (t, val) in [(1u64, 5u64), (14, 7), (0, 0)] {
                b.bytes.extend_from_slice(&encode(Kind::Dyn, enc, &[t, val], 0));
            }
            b.bytes.extend_from_slice(&[0x5a; 9]);
            v.push(Skeleton { name: format!("phdrs-only-unterminated-dynamic/{}", enc.name()), enc, bytes: b.bytes, sites: b.sites, generated: true });
        }
        // shdrs only
        let mut s = Spec::new(enc, TableOrder::TablesFirst);
        s.secs = vec![Sec::new(b".text", SHT_PROGBITS, vec![0x90; 7]), Sec::new(b".comment", SHT_PROGBITS, b"x\0".to_vec())];
        let b = build(&s);
        v.push(Skeleton { name: format!("shdrs-only/{}", enc.name()), enc, bytes: b.bytes, sites: b.sites, generated: true });
    }
    v
}

/// extended-numbering shapes: e_shnum == 0 (count in shdr[0].sh_size), e_phnum == PN_XNUM,
/// e_shstrndx == SHN_XINDEX, on small tables (the *encoding* is what the lattice then perturbs).
pub fn extnum_shapes() -> Vec<Skeleton> {
    let mut v = Vec::new();
    for enc in ENCS {
        let mut s = Spec::new(enc, TableOrder::Linker);
        let symsz = layout(Kind::Sym, enc.class).size as u64;
        let names: Vec<Vec<u8>> = vec![b"".to_vec(), b"main".to_vec(), b"x".to_vec()];
        let (strtab, offs) = build_strtab(&names);
        let symtab = build_symtab(enc, &offs);
        // symbol tables too: with the count in shdr[0].sh_size, header 0 designates a non-empty range,
        // which is what a link of 0 then names
        s.secs = vec![
            Sec::new(b".text", SHT_PROGBITS, vec![0x90; 9]),
            Sec::new(b".data", SHT_PROGBITS, vec![1, 2, 3]),
            Sec::new(b".symtab", SHT_SYMTAB, symtab.clone()).link(4).info(1).entsize(symsz),
            Sec::new(b".strtab", SHT_STRTAB, strtab.clone()),
            Sec::new(b".dynsym", SHT_DYNSYM, symtab).link(4).info(1).entsize(symsz),
            // enough sections for the count in shdr[0].sh_size to span NUL bytes of the file header
            // (a string table read from header 0's range [0, count) then holds terminated strings)
            Sec::new(b".a", SHT_PROGBITS, vec![1]),
            Sec::new(b".b", SHT_PROGBITS, vec![2]),
            Sec::new(b".c", SHT_PROGBITS, vec![3]),
            Sec::new(b".d", SHT_PROGBITS, vec![4]),
            Sec::new(b".e", SHT_PROGBITS, vec![5]),
        ];
        s.segs = vec![Seg { p_type: PT_LOAD, flags: 5, vaddr: 0, paddr: 0, align: 16, memsz_extra: 0, target: SegTarget::Section(1) }];
        let mut b = build(&s);
        let nsec = b.shnum as u64;
        let strndx = b.shstrndx as u64;
        b.patch("ehdr.e_shnum", 0);
        b.patch("shdr[0].sh_size", nsec);
        b.patch("ehdr.e_shstrndx", 0xffff);
        b.patch("shdr[0].sh_link", strndx);
        b.patch("ehdr.e_phnum", 0xffff);
        b.patch("shdr[0].sh_info", 1);
        let mut sites = b.sites.clone();
        for st in sites.iter_mut() {
            match st.role.as_str() {
                "ehdr.e_shnum" => st.valid = 0,
                "shdr[0].sh_size" => {
                    st.valid = nsec;
                    st.mult = layout(Kind::Shdr, enc.class).size as u64
                }
                "ehdr.e_shstrndx" => st.valid = 0xffff,
                "shdr[0].sh_link" => st.valid = strndx,
                "ehdr.e_phnum" => st.valid = 0xffff,
                "shdr[0].sh_info" => {
                    st.valid = 1;
                    st.mult = layout(Kind::Phdr, enc.class).size as u64
                }
                _ => {}
            }
        }
        v.push(Skeleton { name: format!("extended-numbering/{}", enc.name()), enc, bytes: b.bytes, sites, generated: true });
    }
    v
}

pub const SAMPLE_FILES: [&str; 10] = [
    "basic.x86_64",
    "phnum.m68k.so",
    "stripped.x86_64.so",
    "symver.aarch64.so",
    "symver.armhf.so",
    "symver.m68k.so",
    "symver.powerpc64.so",
    "symver.powerpc64le.so",
    "symver.riscv64.so",
    "symver.x86_64.so",
];

pub fn repo_dir() -> String {
    std::env::var("ELF_REPO").unwrap_or_else(|_| "/repo".to_string())
}

/// Site map of a foreign object computed by the reference walker (ehdr, shdr and phdr fields).
pub fn sample_sites(bytes: &[u8]) -> Option<(Enc, Vec<Site>)> {
    if bytes.len() < 52 {
        return None;
    }
    let class = match bytes[4] {
        1 => Class::C32,
        2 => Class::C64,
        _ => return None,
    };
    let order = match bytes[5] {
        1 => Order::Lsb,
        2 => Order::Msb,
        _ => return None,
    };
    let enc = Enc { class, order };
    let ehl = layout(Kind::Ehdr, class);
    if bytes.len() < ehl.size {
        return None;
    }
    let eh = decode(Kind::Ehdr, enc, bytes, 0);
    let mut sites = Vec::new();
    for (f, v) in ehl.fields.iter().zip(eh.iter()) {
        sites.push(Site { off: f.off, width: f.width, role: format!("ehdr.{}", f.name), group: 0, mult: 0, valid: *v });
    }
    let fi = |n: &str| field_index(Kind::Ehdr, class, n);
    let shoff = eh[fi("e_shoff")] as usize;
    let shnum = eh[fi("e_shnum")] as usize;
    let phoff = eh[fi("e_phoff")] as usize;
    let phnum = eh[fi("e_phnum")] as usize;
    let shl = layout(Kind::Shdr, class);
    let phl = layout(Kind::Phdr, class);
    if shoff != 0 {
        for i in 0..shnum.min(64) {
            let off = shoff + i * shl.size;
            if off + shl.size > bytes.len() {
                break;
            }
            let vals = decode(Kind::Shdr, enc, bytes, off);
            for (f, v) in shl.fields.iter().zip(vals.iter()) {
                sites.push(Site { off: off + f.off, width: f.width, role: format!("shdr[{}].{}", i, f.name), group: 1000 + i as u32, mult: 0, valid: *v });
            }
        }
    }
    if phoff != 0 && phnum != 0xffff {
        for i in 0..phnum.min(32) {
            let off = phoff + i * phl.size;
            if off + phl.size > bytes.len() {
                break;
            }
            let vals = decode(Kind::Phdr, enc, bytes, off);
            for (f, v) in phl.fields.iter().zip(vals.iter()) {
                sites.push(Site { off: off + f.off, width: f.width, role: format!("phdr[{}].{}", i, f.name), group: 2000 + i as u32, mult: 0, valid: *v });
            }
        }
    }
    Some((enc, sites))
}

pub fn sample_skeletons() -> Vec<Skeleton> {
    let mut v = Vec::new();
    for f in SAMPLE_FILES {
        let p = format!("{}/sample-objects/{}", repo_dir(), f);
        let bytes = match std::fs::read(&p) {
            Ok(b) => b,
            Err(e) => panic!("cannot read sample {p}: {e}"),
        };
        if let Some((enc, sites)) = sample_sites(&bytes) {
            v.push(Skeleton { name: format!("sample/{f}"), enc, bytes, sites, generated: false });
        }
    }
    v
}

/// C18 family: the tiny-full object in tables-first layout with the body of section `last` laid
/// out at the very end of the file, (a) without program headers, (b) with a PT_DYNAMIC segment
/// that covers only the first entry of .dynamic. Every further cut of the tail removes bytes of
/// exactly one construct while everything else is intact.
pub fn rotated_skeletons(enc: Enc) -> Vec<Skeleton> {
    let mut v = Vec::new();
    for last in 1..idx::SHSTRTAB + 1 {
        for fam in 0..2 {
            let (mut spec, _) = tiny_spec(enc, TableOrder::TablesFirst);
            let mut order: Vec<usize> = (1..=idx::SHSTRTAB).filter(|i| *i != last).collect();
            order.push(last);
            spec.body_order = order;
            spec.segs.clear();
            if fam == 1 {
                let b0 = build(&spec);
                let (off, _) = b0.sec_range(idx::DYNAMIC);
                let dynsz = layout(Kind::Dyn, enc.class).size as u64;
                spec.segs = vec![Seg { p_type: PT_DYNAMIC, flags: 6, vaddr: 0, paddr: 0, align: 8, memsz_extra: 0, target: SegTarget::Range { offset: off + (layout(Kind::Phdr, enc.class).size as u64), filesz: dynsz } }];
                // adding one phdr shifts every body by the phdr size (tables-first): rebuild and re-read
                let b1 = build(&spec);
                let (off1, _) = b1.sec_range(idx::DYNAMIC);
                spec.segs[0].target = SegTarget::Range { offset: off1, filesz: dynsz };
            }
            let b = build(&spec);
            v.push(Skeleton {
                name: format!("tiny-rotated/{}/last-body={}/{}", enc.name(), String::from_utf8_lossy(&b.names[last]), if fam == 0 { "no-phdrs" } else { "short-PT_DYNAMIC" }),
                enc,
                bytes: b.bytes,
                sites: b.sites,
                generated: true,
            });
        }
    }
    v
}

/// Wide objects: the tiny-full contents plus a second copy of every special section (two
/// SHT_SYMTAB / DYNSYM / DYNAMIC / HASH / GNU_HASH / GNU_VERSYM / VERNEED / VERDEF / NOTE), filler
/// sections up to 110 section headers, and 200 PT_LOAD segments behind two PT_DYNAMIC and two
/// PT_NOTE segments; and a section-less variant with the same program header table. Sites kept for
/// the lattice: the file header, shdr[0], every field of the duplicated special sections' headers and
/// of the non-PT_LOAD program headers (+ the first and last PT_LOAD).
pub fn wide_shapes() -> Vec<Skeleton> {
    let mut v = Vec::new();
    for enc in ENCS {
        for sectionless in [false, true] {
            let (mut spec, _) = tiny_spec(enc, TableOrder::Linker);
            let first_dup = spec.secs.len() + 1; // index of the first appended section
            let specials = [idx::DYNSYM, idx::VERSYM, idx::VERNEED, idx::VERDEF, idx::HASH, idx::GNUHASH, idx::DYNAMIC, idx::NOTE_A, idx::SYMTAB];
            for s in specials {
                let mut c = spec.secs[s - 1].clone();
                c.name.extend_from_slice(b".2");
                c.deep.clear();
                spec.secs.push(c);
            }
            let mut k = 0usize;
            while spec.secs.len() + 2 < 110 {
                spec.secs.push(Sec::new(format!(".fill{k}").as_bytes(), SHT_PROGBITS, vec![k as u8; 1 + k % 5]));
                k += 1;
            }
            let second_dynamic = first_dup + 6;
            let mut segs = vec![
                Seg { p_type: PT_DYNAMIC, flags: 6, vaddr: 0, paddr: 0, align: 8, memsz_extra: 0, target: SegTarget::Section(idx::DYNAMIC) },
                Seg { p_type: PT_NOTE, flags: 4, vaddr: 0, paddr: 0, align: 4, memsz_extra: 4, target: SegTarget::Section(idx::NOTE_A) },
                Seg { p_type: PT_DYNAMIC, flags: 6, vaddr: 0, paddr: 0, align: 8, memsz_extra: 0, target: SegTarget::Section(second_dynamic) },
                Seg { p_type: PT_NOTE, flags: 4, vaddr: 0, paddr: 0, align: 8, memsz_extra: 0, target: SegTarget::Section(idx::NOTE_B) },
            ];
            for i in 0..200u64 {
                segs.push(Seg { p_type: PT_LOAD, flags: 5, vaddr: 0x1000 * i, paddr: 0, align: 0x1000, memsz_extra: i % 3, target: SegTarget::Range { offset: 16 * i, filesz: 16 + i % 7 } });
            }
            spec.segs = segs;
            let mut b = build(&spec);
            if sectionless {
                // the bytes stay where they are; only the file header stops announcing the table
                b.patch("ehdr.e_shoff", 0);
                b.patch("ehdr.e_shnum", 0);
                b.patch("ehdr.e_shstrndx", 0);
            }
            let keep = |s: &Site| -> bool {
                if s.group == 0 || s.role.starts_with("shdr[0].") {
                    return true;
                }
                if let Some(rest) = s.role.strip_prefix("phdr[") {
                    let i: usize = rest.split(']').next().unwrap().parse().unwrap();
                    return i < 5 || i == 203;
                }
                if let Some(rest) = s.role.strip_prefix("shdr[") {
                    let i: usize = rest.split(']').next().unwrap().parse().unwrap();
                    return !sectionless && ((i >= first_dup && i < first_dup + specials.len()) || specials.contains(&i));
                }
                false
            };
            let mut sites: Vec<Site> = b.sites.iter().filter(|s| keep(s)).cloned().collect();
            if sectionless {
                for st in sites.iter_mut() {
                    if matches!(st.role.as_str(), "ehdr.e_shoff" | "ehdr.e_shnum" | "ehdr.e_shstrndx") {
                        st.valid = 0;
                    }
                }
            }
            v.push(Skeleton { name: format!("wide/{}/{}", enc.name(), if sectionless { "section-less, 204 segments" } else { "110 sections, 204 segments" }), enc, bytes: b.bytes, sites, generated: true });
        }
    }
    v
}

/// Machines whose processor supplements deviate from the generic ABI somewhere a parser could care
/// (8-byte .hash words on 64-bit Alpha and s390x, MIPS64 r_info layout, SPARC r_info data, IA-64 /
/// PA-RISC section types, ...) plus the common ones.
pub const QUIRK_MACHINES: [(u16, &str); 14] = [
    (41, "EM_ALPHA"),
    (0x9026, "EM_ALPHA(old)"),
    (22, "EM_S390"),
    (8, "EM_MIPS"),
    (21, "EM_PPC64"),
    (50, "EM_IA_64"),
    (15, "EM_PARISC"),
    (43, "EM_SPARCV9"),
    (40, "EM_ARM"),
    (183, "EM_AARCH64"),
    (243, "EM_RISCV"),
    (62, "EM_X86_64"),
    (4, "EM_68K"),
    (0, "EM_NONE"),
];

/// The tiny-full skeletons (linker order) as relocatable, executable and core files.
pub fn filetype_variants() -> Vec<Skeleton> {
    let mut v = Vec::new();
    for (k, sk) in tiny_skeletons().into_iter().enumerate() {
        if k % 2 == 0 {
            continue;
        }
        for (t, tname) in [(1u64, "ET_REL"), (2, "ET_EXEC"), (4, "ET_CORE")] {
            let mut sk = sk.clone();
            let site = sk.sites.iter().position(|s| s.role == "ehdr.e_type").expect("e_type site");
            let (off, width) = (sk.sites[site].off, sk.sites[site].width);
            put(&mut sk.bytes, off, width, sk.enc.order, t);
            sk.sites[site].valid = t;
            sk.name = format!("{}/{}", sk.name, tname);
            v.push(sk);
        }
    }
    v
}

/// The tiny-full skeletons (linker order) re-labelled for each of the quirk machines.
pub fn machine_variants() -> Vec<Skeleton> {
    let mut v = Vec::new();
    for (k, sk) in tiny_skeletons().into_iter().enumerate() {
        if k % 2 == 0 {
            continue; // linker order only
        }
        for (m, mname) in QUIRK_MACHINES {
            let mut sk = sk.clone();
            let site = sk.sites.iter().position(|s| s.role == "ehdr.e_machine").expect("e_machine site");
            let (off, width) = (sk.sites[site].off, sk.sites[site].width);
            put(&mut sk.bytes, off, width, sk.enc.order, m as u64);
            sk.sites[site].valid = m as u64;
            sk.name = format!("{}/{}", sk.name, mname);
            v.push(sk);
        }
    }
    // 64-bit Alpha / s390x: the .hash section in its 8-byte-word form (sh_entsize 8)
    for enc in ENCS {
        if enc.class != Class::C64 {
            continue;
        }
        for (m, mname) in [(41u16, "EM_ALPHA"), (22, "EM_S390"), (62, "EM_X86_64")] {
            let (mut spec, truth) = tiny_spec(enc, TableOrder::Linker);
            spec.e_machine = m;
            let h = &mut spec.secs[idx::HASH - 1];
            h.body = build_sysv_wide(enc.order, &truth.dyn_names, 2);
            h.entsize = 8;
            h.deep.clear();
            let h = h.clone().deep_words(8, 64);
            spec.secs[idx::HASH - 1] = h;
            let b = build(&spec);
            v.push(Skeleton { name: format!("tiny-full/{}/{}/8-byte .hash words", enc.name(), mname), enc, bytes: b.bytes, sites: b.sites, generated: true });
        }
    }
    v
}
