//! Controller / worker plumbing shared by all checks: finite case spaces enumerated completely,
//! process-isolated workers, bisection of aborts, reproduce-before-report, evidence, replays,
//! known findings.

use crate::alloc;
use serde_json::{json, Value};
use std::collections::{BTreeMap, HashSet};
use std::io::{Read, Write};
use std::path::{Path, PathBuf};
use std::process::{Command, Stdio};
use std::sync::atomic::Ordering;
use std::sync::{Arc, Mutex};
use std::time::{Duration, Instant};

#[derive(Clone, Copy, PartialEq, Eq, Debug)]
pub enum Tier {
    Quick,
    Thorough,
}
impl Tier {
    pub fn name(&self) -> &'static str {
        match self {
            Tier::Quick => "quick",
            Tier::Thorough => "thorough",
        }
    }
    pub fn parse(s: &str) -> Tier {
        match s {
            "quick" => Tier::Quick,
            "thorough" => Tier::Thorough,
            _ => panic!("bad tier {s}"),
        }
    }
    pub fn pick<T>(&self, q: T, t: T) -> T {
        match self {
            Tier::Quick => q,
            Tier::Thorough => t,
        }
    }
}

#[derive(Clone, Debug)]
pub struct Violation {
    /// specific, stable identification of what fails (matched against KNOWN_FINDINGS.txt)
    pub key: String,
    pub detail: String,
}

/// Per-worker accumulator.
#[derive(Default)]
pub struct Outcome {
    pub evals: u64,
    pub transitions: u64,
    pub states: u64,
    pub digests: HashSet<u64>,
    pub hist: BTreeMap<String, u64>,
    pub violations: Vec<(u64, Violation)>,
    pub violations_total: u64,
    pub cur: u64,
    pub max_alloc: u64,
    pub alloc_calls: u64,
    pub extra: BTreeMap<String, Value>,
}

impl Outcome {
    /// record the observation digest of a case that is non-trivial by the space's rule
    pub fn nontrivial(&mut self, digest: u64) {
        if self.digests.len() < 4_000_000 {
            self.digests.insert(digest);
        }
    }
    pub fn count(&mut self, key: &str) {
        *self.hist.entry(key.to_string()).or_insert(0) += 1;
    }
    pub fn count_n(&mut self, key: &str, n: u64) {
        *self.hist.entry(key.to_string()).or_insert(0) += n;
    }
    pub fn calls(&mut self, n: u64) {
        self.transitions += n;
    }
    pub fn violate(&mut self, key: impl Into<String>, detail: impl Into<String>) {
        self.violations_total += 1;
        if self.violations.len() < 8 {
            self.violations.push((self.cur, Violation { key: key.into(), detail: detail.into() }));
        }
    }
}

/// A finite, completely enumerated space of cases. Case `idx` must be a pure function of `idx`.
pub trait Space: Sync + Send {
    fn name(&self) -> String;
    fn size(&self) -> u64;
    fn describe(&self, idx: u64) -> Value;
    fn run(&self, idx: u64, out: &mut Outcome);
    /// seconds a single case may take before the watchdog calls it a hang
    fn hang_secs(&self) -> u64 {
        20
    }
    /// in-process engines (stateright) run as a single case and report their own counts
    fn chunk_hint(&self) -> u64 {
        0
    }
    /// Re-execute exactly the failing part of case `idx` described by a violation's `detail`
    /// (default: the whole case again).
    fn replay(&self, idx: u64, _detail: &str, out: &mut Outcome) {
        self.run(idx, out)
    }
}

pub struct CheckDef {
    pub prop: &'static str,
    pub level: &'static str,
    pub rule: String,
    pub assumptions: Vec<String>,
    pub spaces: Vec<Box<dyn Space>>,
    /// a hang / abort of the subject counts as a violation of this property
    pub abort_is_violation: bool,
    pub hang_is_violation: bool,
    pub exhaustive: bool,
    pub bounds: Value,
}

pub fn verif_dir() -> PathBuf {
    if let Ok(d) = std::env::var("VERIF_DIR") {
        return PathBuf::from(d);
    }
    // .../mc/target/release/mc -> verif dir is 4 levels up
    let exe = std::env::current_exe().expect("current_exe");
    let mut p = exe.clone();
    for _ in 0..4 {
        p.pop();
    }
    if p.join("properties.jsonl").exists() {
        p
    } else {
        PathBuf::from("/verif")
    }
}

// ---------------------------------------------------------------- worker

fn fnv(bytes: &[u8]) -> u64 {
    let mut h: u64 = 0xcbf29ce484222325;
    for b in bytes {
        h ^= *b as u64;
        h = h.wrapping_mul(0x100000001b3);
    }
    h
}

pub fn worker_main(def: &CheckDef, space_idx: usize, a: u64, b: u64, out_path: &str) -> i32 {
    let space = &def.spaces[space_idx];
    alloc::install_panic_hook();
    alloc::CUR_SPACE.store(space_idx as u64, Ordering::Relaxed);
    // watchdog
    let hang_secs = space.hang_secs();
    let out_path2 = out_path.to_string();
    std::thread::spawn(move || {
        let mut last = (u64::MAX, 0u64);
        let mut since = Instant::now();
        loop {
            std::thread::sleep(Duration::from_millis(250));
            let cur = (alloc::CUR_CASE.load(Ordering::Relaxed), alloc::CASE_STAMP.load(Ordering::Relaxed));
            if cur != last {
                last = cur;
                since = Instant::now();
            } else if cur.0 != u64::MAX && since.elapsed().as_secs() >= hang_secs {
                let _ = std::fs::write(&out_path2, json!({"hang": cur.0}).to_string());
                eprintln!("HANG idx={}", cur.0);
                unsafe { libc::_exit(3) };
            }
        }
    });
    let mut out = Outcome::default();
    let samples: Vec<Value> = Vec::new();
    // determinism probe: the first case of every chunk of a grid / lattice space is executed twice
    // into scratch outcomes; differing observations mean the harness does not own some source of
    // nondeterminism, and nothing such a harness reports may be believed (machinery exit)
    if space.chunk_hint() == 0 && a < b {
        let probe = |_: u32| {
            let mut o = Outcome::default();
            alloc::CUR_CASE.store(a, Ordering::Relaxed);
            alloc::CASE_STAMP.fetch_add(1, Ordering::Relaxed);
            o.cur = a;
            space.run(a, &mut o);
            let mut d: Vec<u64> = o.digests.iter().copied().collect();
            d.sort_unstable();
            let mut k: Vec<String> = o.violations.iter().map(|(_, v)| v.key.clone()).collect();
            k.sort();
            (o.transitions, d, k)
        };
        let (p1, p2) = (probe(1), probe(2));
        if p1 != p2 {
            eprintln!("HARNESS PANIC: nondeterministic case {a} of space {space_idx}: two executions observed {:?} and {:?}", (p1.0, p1.1.len(), &p1.2), (p2.0, p2.1.len(), &p2.2));
            std::process::exit(101);
        }
        out.count("determinism_probes_identical");
    }
    for idx in a..b {
        alloc::CUR_CASE.store(idx, Ordering::Relaxed);
        alloc::CASE_STAMP.fetch_add(1, Ordering::Relaxed);
        out.cur = idx;
        out.evals += 1;
        let states_before = out.states;
        space.run(idx, &mut out);
        if out.states == states_before {
            // a case of a grid / lattice space is one explored state (one distinct input or history)
            out.states += 1;
        }
    }
    alloc::CUR_CASE.store(u64::MAX, Ordering::Relaxed);
    // digests sidecar
    let mut dig: Vec<u64> = out.digests.iter().copied().collect();
    dig.sort_unstable();
    let mut raw = Vec::with_capacity(dig.len() * 8);
    for d in &dig {
        raw.extend_from_slice(&d.to_le_bytes());
    }
    std::fs::write(format!("{out_path}.dig"), raw).expect("write digests");
    let viol: Vec<Value> = out
        .violations
        .iter()
        .map(|(idx, v)| json!({"idx": idx, "key": v.key, "detail": v.detail}))
        .collect();
    let res = json!({
        "evals": out.evals,
        "transitions": out.transitions,
        "states": out.states,
        "hist": out.hist,
        "violations": viol,
        "violations_total": out.violations_total,
        "samples": samples,
        "max_alloc": out.max_alloc,
        "alloc_calls": out.alloc_calls,
        "extra": out.extra,
    });
    std::fs::write(out_path, res.to_string()).expect("write result");
    0
}

// ---------------------------------------------------------------- controller

#[derive(Default)]
struct Merged {
    evals: u64,
    transitions: u64,
    states: u64,
    digests: HashSet<u64>,
    hist: BTreeMap<String, u64>,
    violations: Vec<(usize, u64, Violation)>,
    violations_total: u64,
    samples: Vec<Value>,
    max_alloc: u64,
    alloc_calls: u64,
    machinery: Vec<String>,
    extra: BTreeMap<String, Value>,
    capped: Vec<String>,
    /// worker seconds spent per space (sum over its chunks)
    space_secs: BTreeMap<usize, f64>,
}

struct Job {
    space: usize,
    a: u64,
    b: u64,
}

enum RunRes {
    Ok(Value, Vec<u64>),
    Hang(u64),
    AllocViolation(u64, u64, String),
    Crash(String),
    /// the worker was killed at the per-chunk wall cap: a budget, not a verdict
    WallCap(String),
    HarnessPanic(String),
}

fn run_worker(prop: &str, tier: Tier, job: &Job, scratch: &Path, tag: &str, wall_cap: Duration) -> RunRes {
    let out = scratch.join(format!("w_{}_{}_{}_{}.json", job.space, job.a, job.b, tag));
    let _ = std::fs::remove_file(&out);
    let exe = std::env::current_exe().expect("exe");
    let mut child = Command::new(exe)
        .args([
            "worker",
            prop,
            tier.name(),
            &job.space.to_string(),
            &job.a.to_string(),
            &job.b.to_string(),
            out.to_str().unwrap(),
        ])
        .stdin(Stdio::null())
        .stdout(Stdio::null())
        .stderr(Stdio::piped())
        .spawn()
        .expect("spawn worker");
    let mut stderr = child.stderr.take().unwrap();
    let errbuf = Arc::new(Mutex::new(Vec::<u8>::new()));
    let eb2 = errbuf.clone();
    let reader = std::thread::spawn(move || {
        let mut buf = [0u8; 4096];
        loop {
            match stderr.read(&mut buf) {
                Ok(0) | Err(_) => break,
                Ok(n) => {
                    let mut g = eb2.lock().unwrap();
                    if g.len() < 1 << 16 {
                        g.extend_from_slice(&buf[..n]);
                    }
                }
            }
        }
    });
    let start = Instant::now();
    let status = loop {
        match child.try_wait().expect("wait") {
            Some(st) => break Some(st),
            None => {
                if start.elapsed() > wall_cap {
                    let _ = child.kill();
                    let _ = child.wait();
                    break None;
                }
                std::thread::sleep(Duration::from_millis(5));
            }
        }
    };
    let _ = reader.join();
    let err = String::from_utf8_lossy(&errbuf.lock().unwrap()).to_string();
    let status = match status {
        Some(s) => s,
        None => return RunRes::WallCap(format!("worker exceeded the wall cap of {:?}", wall_cap)),
    };
    if let Some(pos) = err.find("ALLOC-VIOLATION") {
        let line = err[pos..].lines().next().unwrap_or("").to_string();
        let idx = field_of(&line, "idx=").unwrap_or(u64::MAX);
        let size = field_of(&line, "size=").unwrap_or(0);
        if !status.success() {
            return RunRes::AllocViolation(idx, size, tail(&err));
        }
    }
    match status.code() {
        Some(0) => {
            let txt = std::fs::read_to_string(&out).unwrap_or_default();
            let v: Value = match serde_json::from_str(&txt) {
                Ok(v) => v,
                Err(e) => return RunRes::HarnessPanic(format!("bad worker result: {e}")),
            };
            let raw = std::fs::read(format!("{}.dig", out.display())).unwrap_or_default();
            let dig: Vec<u64> = raw.chunks_exact(8).map(|c| u64::from_le_bytes(c.try_into().unwrap())).collect();
            let _ = std::fs::remove_file(&out);
            let _ = std::fs::remove_file(format!("{}.dig", out.display()));
            RunRes::Ok(v, dig)
        }
        Some(3) => {
            let txt = std::fs::read_to_string(&out).unwrap_or_default();
            let v: Value = serde_json::from_str(&txt).unwrap_or(json!({}));
            let _ = std::fs::remove_file(&out);
            RunRes::Hang(v["hang"].as_u64().unwrap_or(u64::MAX))
        }
        Some(101) => RunRes::HarnessPanic(tail(&err)),
        other => RunRes::Crash(format!("status {:?} ({}); stderr: {}", other, status, tail(&err))),
    }
}

fn field_of(line: &str, key: &str) -> Option<u64> {
    let p = line.find(key)? + key.len();
    let rest = &line[p..];
    let end = rest.find(|c: char| !c.is_ascii_digit()).unwrap_or(rest.len());
    rest[..end].parse().ok()
}

fn tail(s: &str) -> String {
    let lines: Vec<&str> = s.lines().collect();
    let n = lines.len();
    lines[n.saturating_sub(12)..].join("\n")
}

fn merge_ok(m: &mut Merged, space: usize, v: &Value, dig: Vec<u64>) {
    m.evals += v["evals"].as_u64().unwrap_or(0);
    m.transitions += v["transitions"].as_u64().unwrap_or(0);
    m.states += v["states"].as_u64().unwrap_or(0);
    for d in dig {
        m.digests.insert(d ^ (space as u64).wrapping_mul(0x9e3779b97f4a7c15));
    }
    if let Some(h) = v["hist"].as_object() {
        for (k, n) in h {
            *m.hist.entry(k.clone()).or_insert(0) += n.as_u64().unwrap_or(0);
        }
    }
    if let Some(vs) = v["violations"].as_array() {
        for x in vs {
            if m.violations.len() < 64 {
                m.violations.push((
                    space,
                    x["idx"].as_u64().unwrap_or(0),
                    Violation {
                        key: x["key"].as_str().unwrap_or("").to_string(),
                        detail: x["detail"].as_str().unwrap_or("").to_string(),
                    },
                ));
            }
        }
    }
    m.violations_total += v["violations_total"].as_u64().unwrap_or(0);
    if let Some(s) = v["samples"].as_array() {
        for x in s {
            if m.samples.len() < 6 {
                m.samples.push(json!({"space": space, "case": x}));
            }
        }
    }
    m.max_alloc = m.max_alloc.max(v["max_alloc"].as_u64().unwrap_or(0));
    m.alloc_calls += v["alloc_calls"].as_u64().unwrap_or(0);
    if let Some(e) = v["extra"].as_object() {
        for (k, val) in e {
            // numeric extras are summed ("max_*": maximum), everything else keeps the first value
            if k.starts_with("max_") {
                let old = m.extra.get(k).and_then(|x| x.as_u64()).unwrap_or(0);
                if val.as_u64().unwrap_or(0) >= old {
                    m.extra.insert(k.clone(), val.clone());
                    if let Some(w) = e.get(&format!("{}_what", k)) {
                        m.extra.insert(format!("{}_what", k), w.clone());
                    }
                }
                continue;
            }
            if k.ends_with("_what") {
                continue;
            }
            if k.starts_with("capped_") {
                m.capped.push(format!("{}: {}", k, val.as_str().unwrap_or("")));
                continue;
            }
            if k.starts_with("secs_") || k.starts_with("states_") {
                m.extra.insert(k.clone(), val.clone());
                continue;
            }
            match (m.extra.get(k).and_then(|x| x.as_u64()), val.as_u64()) {
                (Some(a), Some(b)) => {
                    m.extra.insert(k.clone(), json!(a + b));
                }
                (None, _) if !m.extra.contains_key(k) => {
                    m.extra.insert(k.clone(), val.clone());
                }
                _ => {}
            }
        }
    }
}

/// hangs / aborts found so far in this run (each costs a watchdog period or a bisection)
static COSTLY_FINDINGS: std::sync::atomic::AtomicU64 = std::sync::atomic::AtomicU64::new(0);
const COSTLY_LIMIT: u64 = 3;
static ALLOC_FINDINGS: std::sync::atomic::AtomicU64 = std::sync::atomic::AtomicU64::new(0);
const ALLOC_LIMIT: u64 = 6;

fn process_job(
    def: &CheckDef,
    tier: Tier,
    job: Job,
    scratch: &Path,
    merged: &Mutex<Merged>,
    depth: u32,
    wall_cap: Duration,
) {
    let tag = format!("d{depth}");
    if COSTLY_FINDINGS.load(Ordering::Relaxed) >= COSTLY_LIMIT {
        let mut m = merged.lock().unwrap();
        if m.capped.is_empty() {
            m.capped.push(format!(
                "exploration stopped early after {COSTLY_LIMIT} hang/abort findings (each costs a watchdog period); remaining chunks not explored"
            ));
        }
        return;
    }
    let t0 = Instant::now();
    let rr = run_worker(def.prop, tier, &job, scratch, &tag, wall_cap);
    {
        let mut m = merged.lock().unwrap();
        *m.space_secs.entry(job.space).or_insert(0.0) += t0.elapsed().as_secs_f64();
    }
    match rr {
        RunRes::Ok(v, dig) => {
            let mut m = merged.lock().unwrap();
            merge_ok(&mut m, job.space, &v, dig);
        }
        RunRes::Hang(idx) => {
            COSTLY_FINDINGS.fetch_add(1, Ordering::Relaxed);
            // the cases before and after the hanging one still have to be explored
            {
                let mut m = merged.lock().unwrap();
                let v = Violation {
                    key: format!("hang:{}", def.spaces[job.space].name()),
                    detail: format!("case did not return within {} s", def.spaces[job.space].hang_secs()),
                };
                if def.hang_is_violation {
                    m.violations_total += 1;
                    m.violations.push((job.space, idx, v));
                } else {
                    m.machinery.push(format!("hang in space {} case {} (not a verdict for {})", job.space, idx, def.prop));
                }
                m.evals += 1;
            }
            if idx > job.a && idx < job.b {
                process_job(def, tier, Job { space: job.space, a: job.a, b: idx }, scratch, merged, depth + 1, wall_cap);
            }
            if idx != u64::MAX && idx + 1 < job.b {
                process_job(def, tier, Job { space: job.space, a: idx + 1, b: job.b }, scratch, merged, depth + 1, wall_cap);
            }
        }
        RunRes::AllocViolation(idx, size, err) => {
            // every refused allocation costs a worker process and a re-run of the rest of its chunk: a
            // change that makes thousands of cases over-allocate took half an hour to report. After
            // a handful of such findings the remaining chunks are skipped (reported as capped).
            if ALLOC_FINDINGS.fetch_add(1, Ordering::Relaxed) + 1 >= ALLOC_LIMIT {
                COSTLY_FINDINGS.store(COSTLY_LIMIT, Ordering::Relaxed);
            }
            {
                let mut m = merged.lock().unwrap();
                m.violations_total += 1;
                m.evals += 1;
                m.violations.push((
                    job.space,
                    idx,
                    Violation {
                        key: format!("oversize-alloc:{}", def.spaces[job.space].name()),
                        detail: format!("single allocation request of {size} bytes refused; {err}"),
                    },
                ));
            }
            if idx > job.a && idx < job.b {
                process_job(def, tier, Job { space: job.space, a: job.a, b: idx }, scratch, merged, depth + 1, wall_cap);
            }
            if idx != u64::MAX && idx + 1 < job.b {
                process_job(def, tier, Job { space: job.space, a: idx + 1, b: job.b }, scratch, merged, depth + 1, wall_cap);
            }
        }
        RunRes::HarnessPanic(msg) => {
            merged.lock().unwrap().machinery.push(format!(
                "harness failure in space {} [{}, {}): {}",
                job.space, job.a, job.b, msg
            ));
        }
        RunRes::WallCap(msg) => {
            let mut m = merged.lock().unwrap();
            m.capped.push(format!("space {} cases [{}, {}) not explored: {}", job.space, job.a, job.b, msg));
        }
        RunRes::Crash(msg) => {
            if job.b - job.a <= 1 {
                COSTLY_FINDINGS.fetch_add(1, Ordering::Relaxed);
                let mut m = merged.lock().unwrap();
                m.evals += 1;
                if def.abort_is_violation {
                    m.violations_total += 1;
                    m.violations.push((
                        job.space,
                        job.a,
                        Violation { key: format!("abort:{}", def.spaces[job.space].name()), detail: msg },
                    ));
                } else {
                    m.machinery.push(format!("worker died on space {} case {}: {}", job.space, job.a, msg));
                }
            } else {
                let mid = job.a + (job.b - job.a) / 2;
                process_job(def, tier, Job { space: job.space, a: job.a, b: mid }, scratch, merged, depth + 1, wall_cap);
                process_job(def, tier, Job { space: job.space, a: mid, b: job.b }, scratch, merged, depth + 1, wall_cap);
            }
        }
    }
}

pub fn load_known(prop: &str) -> Vec<(String, String)> {
    let p = verif_dir().join("KNOWN_FINDINGS.txt");
    let txt = std::fs::read_to_string(p).unwrap_or_default();
    let mut v = Vec::new();
    for line in txt.lines() {
        let line = line.trim();
        if !line.starts_with("known:") {
            continue;
        }
        let rest = line["known:".len()..].trim();
        let want = format!("property={prop} ");
        if !rest.starts_with(&want) {
            continue;
        }
        let rest = &rest[want.len()..];
        if let Some(r) = rest.strip_prefix("key=") {
            // key extends to the first " :: " separator
            let (key, text) = match r.find(" :: ") {
                Some(p) => (&r[..p], &r[p + 4..]),
                None => (r, ""),
            };
            v.push((key.to_string(), text.to_string()));
        }
    }
    v
}

pub fn controller_main(def: &CheckDef, tier: Tier) -> i32 {
    let start = Instant::now();
    let seed: u64 = std::env::var("VERIF_SEED").ok().and_then(|s| s.parse().ok()).unwrap_or(0);
    let vdir = verif_dir();
    let scratch = vdir.join("mc").join("target").join("scratch").join(format!("{}_{}", def.prop, std::process::id()));
    std::fs::create_dir_all(&scratch).expect("scratch dir");
    let nworkers: usize = std::env::var("MC_WORKERS").ok().and_then(|s| s.parse().ok()).unwrap_or(16);

    // jobs
    let mut jobs: Vec<Job> = Vec::new();
    let mut total: u64 = 0;
    let mut space_info: Vec<Value> = Vec::new();
    for (si, sp) in def.spaces.iter().enumerate() {
        let n = sp.size();
        total += n;
        space_info.push(json!({"space": si, "name": sp.name(), "cases": n}));
        if n == 0 {
            continue;
        }
        let hint = sp.chunk_hint();
        // at most 6 chunks per worker and space, and at least 64 cases per chunk: every chunk is a
        // process (about 40 ms to start), which dominated the many small spaces of C18
        let chunk = if hint > 0 { hint } else { (n / (nworkers as u64 * 6)).clamp(64, 250_000) };
        let mut a = 0;
        while a < n {
            let b = (a + chunk).min(n);
            jobs.push(Job { space: si, a, b });
            a = b;
        }
    }
    if !jobs.is_empty() {
        let r = (seed as usize) % jobs.len();
        jobs.rotate_left(r);
    }
    let wall_cap = Duration::from_secs(
        std::env::var("MC_CHUNK_WALL").ok().and_then(|s| s.parse().ok()).unwrap_or(tier.pick(600, 7200)),
    );
    let queue = Mutex::new(jobs);
    let merged = Mutex::new(Merged::default());
    std::thread::scope(|s| {
        for _ in 0..nworkers {
            s.spawn(|| loop {
                let job = { queue.lock().unwrap().pop() };
                match job {
                    None => break,
                    Some(j) => process_job(def, tier, j, &scratch, &merged, 0, wall_cap),
                }
            });
        }
    });
    let mut m = merged.into_inner().unwrap();

    // reproduce-before-report, known findings
    let known = load_known(def.prop);
    let mut exit = 0;
    let mut reported: Vec<Value> = Vec::new();
    let mut seen_keys: HashSet<String> = HashSet::new();
    let mut known_hits: Vec<String> = Vec::new();
    let viols = std::mem::take(&mut m.violations);
    let mut unknown = 0u64;
    let _ = std::fs::remove_dir_all(vdir.join("replays").join(def.prop));
    for (space, idx, v) in viols.iter() {
        if !seen_keys.insert(v.key.clone()) {
            continue;
        }
        if reported.len() >= 5 {
            break;
        }
        if let Some((k, text)) = known.iter().find(|(k, _)| *k == v.key) {
            known_hits.push(format!("KNOWN-FINDING: property={} key={} {}", def.prop, k, text));
            continue;
        }
        // reproduce in a fresh worker
        let repro = run_worker(def.prop, tier, &Job { space: *space, a: *idx, b: *idx + 1 }, &scratch, "repro", wall_cap);
        let reproduced = match &repro {
            RunRes::Ok(val, _) => val["violations"]
                .as_array()
                .map(|a| a.iter().any(|x| x["key"].as_str() == Some(&v.key)))
                .unwrap_or(false),
            RunRes::Hang(_) => v.key.starts_with("hang:"),
            RunRes::AllocViolation(..) => v.key.starts_with("oversize-alloc:"),
            RunRes::Crash(_) => v.key.starts_with("abort:"),
            RunRes::WallCap(_) => false,
            RunRes::HarnessPanic(_) => false,
        };
        if !reproduced {
            m.machinery.push(format!(
                "violation {} at space {} case {} did not reproduce in a fresh worker; not reported as a verdict",
                v.key, space, idx
            ));
            continue;
        }
        unknown += 1;
        let rdir = vdir.join("replays").join(def.prop);
        let _ = std::fs::create_dir_all(&rdir);
        let rpath = rdir.join(format!("{}.json", reported.len()));
        let replay = json!({
            "property": def.prop,
            "tier": tier.name(),
            "space": space,
            "space_name": def.spaces[*space].name(),
            "case": idx,
            "key": v.key,
            "detail": v.detail,
            "description": def.spaces[*space].describe(*idx),
            "replay_cmd": format!("./check replay {}", rpath.display()),
        });
        let _ = std::fs::write(&rpath, serde_json::to_string_pretty(&replay).unwrap());
        println!("VIOLATION property={} replay={}", def.prop, rpath.display());
        println!("  key: {}", v.key);
        println!("  detail: {}", v.detail.lines().take(12).collect::<Vec<_>>().join("\n          "));
        reported.push(replay);
        exit = 1;
    }
    for k in &known_hits {
        println!("{k}");
    }
    if !m.machinery.is_empty() {
        for e in &m.machinery {
            eprintln!("MACHINERY: {e}");
        }
        if exit == 0 {
            exit = 2;
        }
    }

    // samples: actual cases of this run, spread over every space (all cases were executed)
    for (si, sp) in def.spaces.iter().enumerate() {
        let n = sp.size();
        if n == 0 {
            continue;
        }
        for k in [n / 3, (2 * n) / 3] {
            if m.samples.len() < 12 {
                m.samples.push(json!({"space": si, "case_index": k, "case": sp.describe(k)}));
            }
        }
    }

    // evidence
    let wall = start.elapsed().as_secs_f64();
    let distinct = m.digests.len() as u64;
    let complete = m.evals >= total && m.machinery.is_empty();
    let mut coverage = json!({
        "evaluations": m.evals,
        "distinct_nontrivial": distinct,
        "rule": def.rule,
        "samples": m.samples,
        "states": m.states.max(1),
        "transitions": m.transitions,
        "traces_validated_against_impl": m.transitions,
        "exhaustive": def.exhaustive && complete && m.capped.is_empty(),
        "declared_cases": total,
        "spaces": space_info
            .iter()
            .map(|r| {
                let mut r = r.clone();
                let si = r["space"].as_u64().unwrap_or(0) as usize;
                r["worker_seconds"] = json!((m.space_secs.get(&si).copied().unwrap_or(0.0) * 100.0).round() / 100.0);
                r
            })
            .collect::<Vec<Value>>(),
        "outcome_histogram": m.hist,
        "bounds": def.bounds,
        "violations_total": m.violations_total,
        "known_findings_hit": known_hits,
        "max_single_alloc_in_subject": m.max_alloc,
        "alloc_calls_in_subject": m.alloc_calls,
        "capped": m.capped,
    });
    for (k, v) in &m.extra {
        coverage[k] = v.clone();
    }
    let ev = json!({
        "property_id": def.prop,
        "tier": tier.name(),
        "seed": seed,
        "level": def.level,
        "coverage": coverage,
        "assumptions": def.assumptions,
        "wall_s": wall,
        "violations": unknown,
    });
    // MC_EVIDENCE_DIR: used by the selftest / seed runners so that runs on deliberately patched
    // trees never overwrite the evidence of the unchanged tree
    let edir = std::env::var("MC_EVIDENCE_DIR").map(PathBuf::from).unwrap_or_else(|_| vdir.join("evidence"));
    let _ = std::fs::create_dir_all(&edir);
    if exit != 2 {
        let mut f = std::fs::File::create(edir.join(format!("{}.json", def.prop))).expect("evidence file");
        f.write_all(serde_json::to_string_pretty(&ev).unwrap().as_bytes()).unwrap();
    }
    let _ = std::fs::remove_dir_all(&scratch);
    println!(
        "{} {}: cases={} evaluated={} crate_calls={} distinct_nontrivial={} violations={} known={} wall={:.1}s exit={}",
        def.prop,
        tier.name(),
        total,
        m.evals,
        m.transitions,
        distinct,
        unknown,
        known_hits.len(),
        wall,
        exit
    );
    if m.evals < total && exit == 0 && m.capped.is_empty() {
        eprintln!("MACHINERY: explored {} of {} declared cases", m.evals, total);
        return 2;
    }
    exit
}

pub fn replay_main(def: &CheckDef, space: usize, idx: u64, detail: &str) -> i32 {
    alloc::install_panic_hook();
    let mut out = Outcome::default();
    out.cur = idx;
    out.evals = 1;
    println!("case: {}", serde_json::to_string_pretty(&def.spaces[space].describe(idx)).unwrap());
    def.spaces[space].replay(idx, detail, &mut out);
    if out.violations.is_empty() {
        println!("replay: no violation");
        0
    } else {
        for (_, v) in &out.violations {
            println!("replay: VIOLATION key={} detail={}", v.key, v.detail);
        }
        1
    }
}

pub fn hash_bytes(b: &[u8]) -> u64 {
    fnv(b)
}
