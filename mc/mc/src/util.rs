//! Small shared helpers: FNV folding, mixed-radix decoding, hex.

#[derive(Clone, Copy)]
pub struct Fnv(pub u64);
impl Fnv {
    pub fn new() -> Fnv {
        Fnv(0xcbf29ce484222325)
    }
    #[inline]
    pub fn u8(&mut self, b: u8) {
        self.0 ^= b as u64;
        self.0 = self.0.wrapping_mul(0x100000001b3);
    }
    #[inline]
    pub fn u64(&mut self, v: u64) {
        // fold all 8 bytes (two multiplications are enough to diffuse)
        self.0 ^= v & 0xffff_ffff;
        self.0 = self.0.wrapping_mul(0x100000001b3);
        self.0 ^= v >> 32;
        self.0 = self.0.wrapping_mul(0x100000001b3);
    }
    #[inline]
    pub fn bytes(&mut self, b: &[u8]) {
        self.u64(b.len() as u64);
        for x in b {
            self.u8(*x);
        }
    }
    pub fn get(&self) -> u64 {
        self.0
    }
}

/// Decode `idx` into digits of the given radices (least significant first).
pub fn unmix(mut idx: u64, radices: &[u64]) -> Vec<u64> {
    let mut out = Vec::with_capacity(radices.len());
    for r in radices {
        out.push(idx % r);
        idx /= r;
    }
    out
}

pub fn product(radices: &[u64]) -> u64 {
    radices.iter().product()
}

pub fn hex(b: &[u8]) -> String {
    let mut s = String::with_capacity(b.len() * 2);
    for x in b {
        s.push_str(&format!("{:02x}", x));
    }
    s
}
