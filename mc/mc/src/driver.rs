//! Observation driver: runs the entire public slice-parser API on one input and reports every
//! API call's outcome to a sink (DESIGN.md 2.8). Emit helpers are shared with the stream engine.

use crate::util::Fnv;
use elf::abi;
use elf::dynamic::DynamicTable;
use elf::endian::EndianParse;
use elf::gnu_symver::SymbolVersionTable;
use elf::hash::{GnuHashTable, SysVHashTable};
use elf::note::{Note, NoteIterator};
use elf::relocation::{RelIterator, RelaIterator};
use elf::section::SectionHeader;
use elf::segment::ProgramHeader;
use elf::string_table::StringTable;
use elf::symbol::SymbolTable;
use elf::ElfBytes;

// ---- query identifiers -------------------------------------------------------------------
pub const Q_OPEN: u16 = 1;
pub const Q_SHDRS: u16 = 2;
pub const Q_PHDRS: u16 = 3;
pub const Q_SHDRS_STRTAB: u16 = 4;
pub const Q_SECNAME: u16 = 5;
pub const Q_SECDATA: u16 = 6;
pub const Q_AS_STRTAB: u16 = 7;
pub const Q_AS_RELS: u16 = 8;
pub const Q_AS_RELAS: u16 = 9;
pub const Q_AS_NOTES: u16 = 10;
pub const Q_SEGDATA: u16 = 11;
pub const Q_SEG_NOTES: u16 = 12;
pub const Q_BYNAME: u16 = 13;
pub const Q_COMMON: u16 = 14;
pub const Q_SYMTAB: u16 = 15;
pub const Q_DYNSYM: u16 = 16;
pub const Q_DYNAMIC: u16 = 17;
pub const Q_SYMVER: u16 = 18;
pub const Q_SYSV_FIND: u16 = 19;
pub const Q_GNU_FIND: u16 = 20;
pub const Q_CRAFT_SEC: u16 = 21;
pub const Q_CRAFT_SEG: u16 = 22;
pub const Q_COMMON_SYMTAB: u16 = 23;
pub const Q_COMMON_DYNSYM: u16 = 24;
pub const Q_COMMON_DYNAMIC: u16 = 25;

pub fn qname(q: u16) -> &'static str {
    match q {
        Q_OPEN => "ElfBytes::minimal_parse",
        Q_SHDRS => "ElfBytes::section_headers",
        Q_PHDRS => "ElfBytes::segments",
        Q_SHDRS_STRTAB => "ElfBytes::section_headers_with_strtab",
        Q_SECNAME => "StringTable::get(sh_name)",
        Q_SECDATA => "ElfBytes::section_data",
        Q_AS_STRTAB => "ElfBytes::section_data_as_strtab",
        Q_AS_RELS => "ElfBytes::section_data_as_rels",
        Q_AS_RELAS => "ElfBytes::section_data_as_relas",
        Q_AS_NOTES => "ElfBytes::section_data_as_notes",
        Q_SEGDATA => "ElfBytes::segment_data",
        Q_SEG_NOTES => "ElfBytes::segment_data_as_notes",
        Q_BYNAME => "ElfBytes::section_header_by_name",
        Q_COMMON => "ElfBytes::find_common_data",
        Q_SYMTAB => "ElfBytes::symbol_table",
        Q_DYNSYM => "ElfBytes::dynamic_symbol_table",
        Q_DYNAMIC => "ElfBytes::dynamic",
        Q_SYMVER => "ElfBytes::symbol_version_table",
        Q_SYSV_FIND => "SysVHashTable::find",
        Q_GNU_FIND => "GnuHashTable::find",
        Q_CRAFT_SEC => "ElfBytes::section_data*(caller-supplied SectionHeader)",
        Q_CRAFT_SEG => "ElfBytes::segment_data*(caller-supplied ProgramHeader)",
        Q_COMMON_SYMTAB => "CommonElfData.symtab",
        Q_COMMON_DYNSYM => "CommonElfData.dynsyms",
        Q_COMMON_DYNAMIC => "CommonElfData.dynamic",
        _ => "?",
    }
}

// sub-call identifiers
pub const S_SELF: u16 = 0;
pub const S_LEN: u16 = 1;
pub const S_GET: u16 = 2;
pub const S_ITER: u16 = 3;
pub const S_STR: u16 = 4;
pub const S_STR_RAW: u16 = 5;
pub const S_REQ: u16 = 6;
pub const S_DEF: u16 = 7;
pub const S_NAME: u16 = 8;
pub const S_STRTAB: u16 = 9;
pub const S_RELS: u16 = 10;
pub const S_RELAS: u16 = 11;
pub const S_NOTES: u16 = 12;
pub const S_SYSV: u16 = 13;
pub const S_GNU: u16 = 14;
pub const S_DATA: u16 = 15;
pub const S_INTO_ITER: u16 = 16;

#[derive(Clone, Copy, PartialEq, Eq, Hash, Debug, PartialOrd, Ord)]
pub struct Key {
    pub q: u16,
    pub a: u32,
    pub sub: u16,
    pub sa: u32,
    /// the actual argument value of alphabet-driven calls (so that two records are only ever
    /// compared when they denote the same call with the same argument)
    pub v: u64,
}
impl Key {
    pub fn new(q: u16, a: u32) -> Key {
        Key { q, a, sub: S_SELF, sa: 0, v: 0 }
    }
    pub fn sub(&self, sub: u16, sa: u32) -> Key {
        Key { q: self.q, a: self.a, sub, sa, v: 0 }
    }
    pub fn sub_v(&self, sub: u16, sa: u32, v: u64) -> Key {
        Key { q: self.q, a: self.a, sub, sa, v }
    }
    pub fn pack(&self) -> u64 {
        (((self.q as u64) << 48) ^ ((self.sub as u64) << 40) ^ ((self.a as u64) << 20) ^ (self.sa as u64)).wrapping_add(self.v.wrapping_mul(0x9e3779b97f4a7c15))
    }
}

/// Receives one record per API call: `call(key)`, payload (`u`/`b`) and `done(ok)`.
pub trait Sink {
    fn call(&mut self, key: Key);
    fn u(&mut self, v: u64);
    fn b(&mut self, bytes: &[u8]);
    fn done(&mut self, ok: bool);
    /// an iterator yielded more items than its input has bytes (+2)
    fn runaway(&mut self, key: Key);
    fn last_key(&self) -> Key;
}

/// Allocation-free sink: folds everything into one hash, counts calls and Ok results.
pub struct HashSink {
    pub h: Fnv,
    pub calls: u64,
    pub oks: u64,
    pub runaways: u64,
    pub runaway_key: Key,
    pub last: Key,
    /// the API call during which the first heap allocation was observed
    pub alloc_key: Option<Key>,
}
impl HashSink {
    pub fn new() -> HashSink {
        HashSink { h: Fnv::new(), calls: 0, oks: 0, runaways: 0, runaway_key: Key::new(0, 0), last: Key::new(0, 0), alloc_key: None }
    }
    #[inline]
    fn note_alloc(&mut self) {
        if self.alloc_key.is_none() && crate::alloc::stats().calls > 0 {
            self.alloc_key = Some(self.last);
        }
    }
}
impl Sink for HashSink {
    #[inline]
    fn call(&mut self, key: Key) {
        self.note_alloc();
        self.last = key;
        self.calls += 1;
        self.h.u64(key.pack());
    }
    #[inline]
    fn u(&mut self, v: u64) {
        self.h.u64(v)
    }
    #[inline]
    fn b(&mut self, bytes: &[u8]) {
        self.h.bytes(bytes)
    }
    #[inline]
    fn done(&mut self, ok: bool) {
        self.note_alloc();
        self.h.u8(ok as u8);
        if ok {
            self.oks += 1;
        }
    }
    fn runaway(&mut self, key: Key) {
        self.runaways += 1;
        self.runaway_key = key;
    }
    fn last_key(&self) -> Key {
        self.last
    }
}

#[derive(Clone, Copy, Debug, PartialEq, Eq)]
pub struct Rec {
    pub key: Key,
    pub ok: bool,
    pub digest: u64,
}

/// Recording sink: one `Rec` per API call.
pub struct RecordSink {
    pub recs: Vec<Rec>,
    cur: Fnv,
    pub last: Key,
    pub runaways: Vec<Key>,
}
impl RecordSink {
    pub fn new() -> RecordSink {
        RecordSink { recs: Vec::with_capacity(1024), cur: Fnv::new(), last: Key::new(0, 0), runaways: Vec::new() }
    }
    pub fn digest(&self) -> u64 {
        let mut f = Fnv::new();
        for r in &self.recs {
            f.u64(r.key.pack());
            f.u8(r.ok as u8);
            if r.ok {
                f.u64(r.digest);
            }
        }
        f.get()
    }
    pub fn oks(&self) -> usize {
        self.recs.iter().filter(|r| r.ok).count()
    }
}
impl Sink for RecordSink {
    fn call(&mut self, key: Key) {
        self.last = key;
        self.cur = Fnv::new();
    }
    fn u(&mut self, v: u64) {
        self.cur.u64(v)
    }
    fn b(&mut self, bytes: &[u8]) {
        self.cur.bytes(bytes)
    }
    fn done(&mut self, ok: bool) {
        crate::alloc::outside(|| self.recs.push(Rec { key: self.last, ok, digest: self.cur.get() }));
    }
    fn runaway(&mut self, key: Key) {
        crate::alloc::outside(|| self.runaways.push(key));
    }
    fn last_key(&self) -> Key {
        self.last
    }
}

// ---- argument alphabets --------------------------------------------------------------------

/// I(n): caller-supplied index/offset alphabet for a table of `n` entries of `e` bytes.
pub fn index_alphabet(n: usize, e: usize) -> [usize; 20] {
    let e = e.max(1);
    [
        0,
        1,
        n.wrapping_sub(1),
        n,
        n.wrapping_add(1),
        n.wrapping_add(2),
        isize::MAX as usize,
        usize::MAX / e,
        (usize::MAX / e).wrapping_add(1),
        usize::MAX - 8,
        usize::MAX - 7,
        usize::MAX - 6,
        usize::MAX - 5,
        usize::MAX - 4,
        usize::MAX - 3,
        usize::MAX - 2,
        usize::MAX - 1,
        usize::MAX,
        (1usize << 61),
        (1usize << 60) + 1,
    ]
}

pub const ALIGNS: [u64; 14] =
    [0, 1, 2, 3, 4, 5, 8, 12, 16, 1 << 31, 1 << 32, 1 << 63, (1 << 63) + 3, u64::MAX];

const SECT_CAP: usize = 96;
const ENTRY_CAP: usize = 48;

// ---- emit helpers ------------------------------------------------------------------------

pub fn emit_shdr<S: Sink>(s: &mut S, h: &SectionHeader) {
    s.u(h.sh_name as u64);
    s.u(h.sh_type as u64);
    s.u(h.sh_flags);
    s.u(h.sh_addr);
    s.u(h.sh_offset);
    s.u(h.sh_size);
    s.u(h.sh_link as u64);
    s.u(h.sh_info as u64);
    s.u(h.sh_addralign);
    s.u(h.sh_entsize);
}
pub fn emit_phdr<S: Sink>(s: &mut S, p: &ProgramHeader) {
    s.u(p.p_type as u64);
    s.u(p.p_offset);
    s.u(p.p_vaddr);
    s.u(p.p_paddr);
    s.u(p.p_filesz);
    s.u(p.p_memsz);
    s.u(p.p_flags as u64);
    s.u(p.p_align);
}
pub fn emit_sym<S: Sink>(s: &mut S, y: &elf::symbol::Symbol) {
    s.u(y.st_name as u64);
    s.u(y.st_shndx as u64);
    s.u(y.st_info as u64);
    s.u(y.st_other as u64);
    s.u(y.st_value);
    s.u(y.st_size);
    s.u(y.is_undefined() as u64);
    s.u(y.st_symtype() as u64);
    s.u(y.st_bind() as u64);
    s.u(y.st_vis() as u64);
}

/// len / is_empty / get(i) over 0..min(len,cap) and the index alphabet / full iteration
macro_rules! emit_table {
    ($s:expr, $key:expr, $table:expr, $ent:expr, $datalen:expr, |$sink:ident, $item:ident| $emit:block) => {{
        let t = $table;
        let key: Key = $key;
        let n = t.len();
        $s.call(key.sub(S_LEN, 0));
        $s.u(n as u64);
        $s.u(t.is_empty() as u64);
        $s.done(true);
        let lim = n.min(ENTRY_CAP);
        for i in 0..lim {
            $s.call(key.sub(S_GET, i as u32));
            match t.get(i) {
                Ok($item) => {
                    let $sink = &mut *$s;
                    $emit;
                    $s.done(true)
                }
                Err(_) => $s.done(false),
            }
        }
        for (k, i) in index_alphabet(n, $ent).iter().enumerate() {
            $s.call(key.sub_v(S_GET, 1000 + k as u32, *i as u64));
            match t.get(*i) {
                Ok($item) => {
                    let $sink = &mut *$s;
                    $emit;
                    $s.done(true)
                }
                Err(_) => $s.done(false),
            }
        }
        $s.call(key.sub(S_ITER, 0));
        let cap = $datalen + 2;
        let mut cnt = 0usize;
        let hint = t.iter().size_hint();
        for $item in t.iter() {
            cnt += 1;
            if cnt > cap {
                $s.runaway(key.sub(S_ITER, 0));
                break;
            }
            let $sink = &mut *$s;
            $emit;
        }
        if cnt <= cap {
            hint_ok(hint, cnt, "ParsingIterator");
        }
        $s.u(cnt as u64);
        $s.done(true);
        // the table consumed by value (IntoIterator)
        $s.call(key.sub(S_INTO_ITER, 0));
        let mut cnt = 0usize;
        for $item in t.clone() {
            cnt += 1;
            if cnt > cap {
                $s.runaway(key.sub(S_INTO_ITER, 0));
                break;
            }
            let $sink = &mut *$s;
            $emit;
        }
        $s.u(cnt as u64);
        $s.done(true);
    }};
}

pub fn emit_strtab_at<S: Sink>(s: &mut S, key: Key, st: &StringTable<'_>, slot: u32, off: usize) {
    s.call(key.sub_v(S_STR_RAW, slot, off as u64));
    match st.get_raw(off) {
        Ok(b) => {
            s.b(b);
            s.done(true)
        }
        Err(_) => s.done(false),
    }
    s.call(key.sub_v(S_STR, slot, off as u64));
    match st.get(off) {
        Ok(b) => {
            s.b(b.as_bytes());
            s.done(true)
        }
        Err(_) => s.done(false),
    }
}

pub fn emit_strtab_probe<S: Sink>(s: &mut S, key: Key, st: &StringTable<'_>, datalen: usize) {
    for off in 0..datalen.min(24) {
        emit_strtab_at(s, key, st, off as u32, off);
    }
    for (k, off) in index_alphabet(datalen, 1).iter().enumerate() {
        emit_strtab_at(s, key, st, 1000 + k as u32, *off);
    }
}

pub fn emit_symtab<S: Sink, E: EndianParse + core::fmt::Debug>(s: &mut S, key: Key, tab: &SymbolTable<'_, E>, strs: &StringTable<'_>, datalen: usize) {
    emit_table!(s, key, tab, 24, datalen, |sink, y| { emit_sym(sink, &y) });
    let lim = tab.len().min(ENTRY_CAP);
    for i in 0..lim {
        if let Ok(y) = tab.get(i) {
            emit_strtab_at(s, key, strs, i as u32, y.st_name as usize);
        }
    }
}

pub fn emit_dynamic<S: Sink, E: EndianParse + core::fmt::Debug>(s: &mut S, key: Key, tab: &DynamicTable<'_, E>, datalen: usize) {
    emit_table!(s, key, tab, 16, datalen, |sink, d| {
        sink.u(d.d_tag as u64);
        sink.u(d.d_val());
        sink.u(d.d_ptr());
    });
}

pub fn emit_note<S: Sink>(s: &mut S, n: &Note<'_>) {
    match n {
        Note::GnuAbiTag(t) => {
            s.u(1);
            s.u(t.os as u64);
            s.u(t.major as u64);
            s.u(t.minor as u64);
            s.u(t.subminor as u64);
        }
        Note::GnuBuildId(b) => {
            s.u(2);
            s.b(b.0);
        }
        Note::Unknown(a) => {
            s.u(3);
            s.u(a.n_type);
            s.b(a.name);
            s.b(a.desc);
            match a.name_str() {
                Ok(x) => {
                    s.u(1);
                    s.b(x.as_bytes())
                }
                Err(_) => s.u(0),
            }
        }
    }
}

/// fmt::Write that discards (formatting without allocating)
pub struct NullWriter;
impl core::fmt::Write for NullWriter {
    fn write_str(&mut self, _: &str) -> core::fmt::Result {
        Ok(())
    }
}

/// Iterator contract: `size_hint()` brackets the number of items really yielded. A wrong hint makes
/// `collect()` and friends panic or over-allocate inside std; it is reported as the crate's panic.
pub fn hint_ok(hint: (usize, Option<usize>), yielded: usize, what: &str) {
    if hint.0 > yielded || hint.1.map(|h| h < yielded).unwrap_or(false) {
        panic!("size_hint contract broken by {what}: hint {:?} but {} items are yielded", hint, yielded);
    }
}

pub fn emit_notes<S: Sink, E: EndianParse + core::fmt::Debug>(s: &mut S, key: Key, it: NoteIterator<'_, E>, datalen: usize) {
    s.call(key.sub(S_NOTES, 0));
    let cap = datalen + 2;
    let mut cnt = 0usize;
    let hint = it.size_hint();
    let mut ran = false;
    let mut it = it;
    while let Some(n) = it.next() {
        cnt += 1;
        if cnt > cap {
            s.runaway(key.sub(S_NOTES, 0));
            ran = true;
            break;
        }
        emit_note(s, &n);
    }
    if !ran {
        hint_ok(hint, cnt, "NoteIterator");
        // Debug of the exhausted iterator, into a sink that stores nothing
        use core::fmt::Write;
        let _ = write!(NullWriter, "{:?}", it);
    }
    s.u(cnt as u64);
    s.done(true);
}

pub fn emit_rels<S: Sink, E: EndianParse + core::fmt::Debug>(s: &mut S, key: Key, it: RelIterator<'_, E>, datalen: usize) {
    s.call(key.sub(S_RELS, 0));
    let cap = datalen + 2;
    let mut cnt = 0usize;
    let hint = it.size_hint();
    for r in it {
        cnt += 1;
        if cnt > cap {
            s.runaway(key.sub(S_RELS, 0));
            break;
        }
        s.u(r.r_offset);
        s.u(r.r_sym as u64);
        s.u(r.r_type as u64);
    }
    if cnt <= cap {
        hint_ok(hint, cnt, "RelIterator");
    }
    s.u(cnt as u64);
    s.done(true);
}

pub fn emit_relas<S: Sink, E: EndianParse + core::fmt::Debug>(s: &mut S, key: Key, it: RelaIterator<'_, E>, datalen: usize) {
    s.call(key.sub(S_RELAS, 0));
    let cap = datalen + 2;
    let mut cnt = 0usize;
    let hint = it.size_hint();
    for r in it {
        cnt += 1;
        if cnt > cap {
            s.runaway(key.sub(S_RELAS, 0));
            break;
        }
        s.u(r.r_offset);
        s.u(r.r_sym as u64);
        s.u(r.r_type as u64);
        s.u(r.r_addend as u64);
    }
    if cnt <= cap {
        hint_ok(hint, cnt, "RelaIterator");
    }
    s.u(cnt as u64);
    s.done(true);
}

pub fn emit_symver<S: Sink, E: EndianParse + core::fmt::Debug>(s: &mut S, key: Key, t: &SymbolVersionTable<'_, E>, nsyms: usize, datalen: usize) {
    let lim = (nsyms + 2).min(ENTRY_CAP);
    let alpha = index_alphabet(nsyms, 2);
    for slot in 0..lim + alpha.len() {
        let i = if slot < lim { slot } else { alpha[slot - lim] };
        let sa = if slot < lim { slot as u32 } else { 1000 + (slot - lim) as u32 };
        s.call(key.sub_v(S_REQ, sa, i as u64));
        match t.get_requirement(i) {
            Ok(Some(r)) => {
                s.u(1);
                s.b(r.file.as_bytes());
                s.b(r.name.as_bytes());
                s.u(r.hash as u64);
                s.u(r.flags as u64);
                s.u(r.hidden as u64);
                s.done(true)
            }
            Ok(None) => {
                s.u(0);
                s.done(true)
            }
            Err(_) => s.done(false),
        }
        s.call(key.sub_v(S_DEF, sa, i as u64));
        match t.get_definition(i) {
            Ok(Some(d)) => {
                s.u(1);
                s.u(d.hash as u64);
                s.u(d.flags as u64);
                s.u(d.hidden as u64);
                let cap = datalen + 2;
                let mut cnt = 0usize;
                let hint = d.names.size_hint();
                for nm in d.names {
                    cnt += 1;
                    if cnt > cap {
                        s.runaway(key.sub(S_DEF, sa));
                        break;
                    }
                    match nm {
                        Ok(x) => {
                            s.u(1);
                            s.b(x.as_bytes())
                        }
                        Err(_) => s.u(0),
                    }
                }
                if cnt <= cap {
                    hint_ok(hint, cnt, "SymbolNamesIterator");
                }
                s.u(cnt as u64);
                s.done(true)
            }
            Ok(None) => {
                s.u(0);
                s.done(true)
            }
            Err(_) => s.done(false),
        }
    }
}

pub const ABSENT_NAMES: [&[u8]; 4] = [b"", b"a", b"zz_absent", b"\xff\xfe"];

pub fn emit_hash_finds<S: Sink, E: EndianParse + core::fmt::Debug>(
    s: &mut S,
    sysv: Option<&SysVHashTable<'_, E>>,
    gnu: Option<&GnuHashTable<'_, E>>,
    symtab: &SymbolTable<'_, E>,
    strs: &StringTable<'_>,
) {
    let n = symtab.len().min(ENTRY_CAP);
    for slot in 0..n + ABSENT_NAMES.len() {
        let name: &[u8] = if slot < n {
            match symtab.get(slot).ok().and_then(|y| strs.get_raw(y.st_name as usize).ok()) {
                Some(x) => x,
                None => continue,
            }
        } else {
            ABSENT_NAMES[slot - n]
        };
        if let Some(t) = sysv {
            s.call(Key::new(Q_SYSV_FIND, slot as u32));
            match t.find(name, symtab, strs) {
                Ok(Some((i, y))) => {
                    s.u(1);
                    s.u(i as u64);
                    emit_sym(s, &y);
                    s.done(true)
                }
                Ok(None) => {
                    s.u(0);
                    s.done(true)
                }
                Err(_) => s.done(false),
            }
        }
        if let Some(t) = gnu {
            s.call(Key::new(Q_GNU_FIND, slot as u32));
            match t.find(name, symtab, strs) {
                Ok(Some((i, y))) => {
                    s.u(1);
                    s.u(i as u64);
                    emit_sym(s, &y);
                    s.done(true)
                }
                Ok(None) => {
                    s.u(0);
                    s.done(true)
                }
                Err(_) => s.done(false),
            }
        }
    }
}

fn emit_section_views<'d, S: Sink, E: EndianParse + core::fmt::Debug>(s: &mut S, f: &ElfBytes<'d, E>, q: u16, a: u32, h: &SectionHeader, flen: usize) {
    let key = Key::new(q, a);
    s.call(key.sub(S_DATA, 0));
    match f.section_data(h) {
        Ok((d, ch)) => {
            s.b(d);
            match ch {
                Some(c) => {
                    s.u(1);
                    s.u(c.ch_type as u64);
                    s.u(c.ch_size);
                    s.u(c.ch_addralign);
                }
                None => s.u(0),
            }
            s.done(true)
        }
        Err(_) => s.done(false),
    }
    s.call(key.sub(S_STRTAB, 0));
    match f.section_data_as_strtab(h) {
        Ok(st) => {
            s.done(true);
            emit_strtab_probe(s, key, &st, (h.sh_size as usize).min(flen));
        }
        Err(_) => s.done(false),
    }
    s.call(key.sub(S_RELS, 1));
    match f.section_data_as_rels(h) {
        Ok(it) => {
            s.done(true);
            emit_rels(s, key, it, flen);
        }
        Err(_) => s.done(false),
    }
    s.call(key.sub(S_RELAS, 1));
    match f.section_data_as_relas(h) {
        Ok(it) => {
            s.done(true);
            emit_relas(s, key, it, flen);
        }
        Err(_) => s.done(false),
    }
    s.call(key.sub(S_NOTES, 1));
    match f.section_data_as_notes(h) {
        Ok(it) => {
            s.done(true);
            emit_notes(s, key, it, flen);
        }
        Err(_) => s.done(false),
    }
}

fn emit_segment_views<'d, S: Sink, E: EndianParse + core::fmt::Debug>(s: &mut S, f: &ElfBytes<'d, E>, q: u16, a: u32, p: &ProgramHeader, flen: usize) {
    let key = Key::new(q, a);
    s.call(key.sub(S_DATA, 0));
    match f.segment_data(p) {
        Ok(d) => {
            s.b(d);
            s.done(true)
        }
        Err(_) => s.done(false),
    }
    s.call(key.sub(S_NOTES, 1));
    match f.segment_data_as_notes(p) {
        Ok(it) => {
            s.done(true);
            emit_notes(s, key, it, flen);
        }
        Err(_) => s.done(false),
    }
}

/// geometry alphabet for caller-supplied headers, relative to the file length L
pub fn craft_geometry(l: u64) -> [(u64, u64); 22] {
    [
        (0, 0),
        (0, 1),
        (0, l),
        (0, l + 1),
        (1, l - 1),
        (1, l),
        (63, 2),
        (64, 0),
        (l.wrapping_sub(2), 2),
        (l.wrapping_sub(1), 1),
        (l.wrapping_sub(1), 2),
        (l, 0),
        (l, 1),
        (l + 1, 0),
        ((1 << 32) - 1, 1),
        (1 << 63, 1 << 63),
        (u64::MAX, 0),
        (u64::MAX, 1),
        (1, u64::MAX),
        (0, u64::MAX),
        (16, 24),
        (l / 2, l / 4),
    ]
}

pub struct Opts {
    pub crafted: bool,
}

/// Run the whole slice-parser API over `data`. Returns false when opening failed.
pub fn observe<E: EndianParse + core::fmt::Debug, S: Sink>(data: &[u8], s: &mut S, opts: &Opts) -> bool {
    let flen = data.len();
    s.call(Key::new(Q_OPEN, 0));
    let f = match ElfBytes::<E>::minimal_parse(data) {
        Ok(f) => f,
        Err(_) => {
            s.done(false);
            return false;
        }
    };
    {
        let e = &f.ehdr;
        s.u(match e.class {
            elf::file::Class::ELF32 => 32,
            elf::file::Class::ELF64 => 64,
        });
        s.u(e.endianness.is_little() as u64);
        s.u(e.version as u64);
        s.u(e.osabi as u64);
        s.u(e.abiversion as u64);
        s.u(e.e_type as u64);
        s.u(e.e_machine as u64);
        s.u(e.e_entry);
        s.u(e.e_phoff);
        s.u(e.e_shoff);
        s.u(e.e_flags as u64);
        s.u(e.e_ehsize as u64);
        s.u(e.e_phentsize as u64);
        s.u(e.e_phnum as u64);
        s.u(e.e_shentsize as u64);
        s.u(e.e_shnum as u64);
        s.u(e.e_shstrndx as u64);
        s.done(true);
    }
    observe_open(&f, data, s, opts);
    true
}

/// Everything after opening, on an already opened file (so that several rounds can share one object).
pub fn observe_open<E: EndianParse + core::fmt::Debug, S: Sink>(f: &ElfBytes<'_, E>, data: &[u8], s: &mut S, opts: &Opts) {
    let flen = data.len();

    // section header table
    s.call(Key::new(Q_SHDRS, 0));
    let shdrs = f.section_headers();
    s.u(shdrs.is_some() as u64);
    s.done(true);
    if let Some(t) = shdrs {
        emit_table!(s, Key::new(Q_SHDRS, 0), t, 64, flen, |sink, h| { emit_shdr(sink, &h) });
    }
    s.call(Key::new(Q_PHDRS, 0));
    let phdrs = f.segments();
    s.u(phdrs.is_some() as u64);
    s.done(true);
    if let Some(t) = phdrs {
        emit_table!(s, Key::new(Q_PHDRS, 0), t, 56, flen, |sink, p| { emit_phdr(sink, &p) });
    }

    // names
    s.call(Key::new(Q_SHDRS_STRTAB, 0));
    match f.section_headers_with_strtab() {
        Ok((sh, st)) => {
            s.u(sh.is_some() as u64);
            s.u(st.is_some() as u64);
            s.done(true);
            if let (Some(sh), Some(st)) = (sh, st) {
                for (i, h) in sh.iter().take(SECT_CAP).enumerate() {
                    emit_strtab_at(s, Key::new(Q_SECNAME, i as u32), &st, 0, h.sh_name as usize);
                }
                // lookups by every name present, plus a fixed alphabet
                for (i, h) in sh.iter().take(SECT_CAP).enumerate() {
                    if let Ok(name) = st.get(h.sh_name as usize) {
                        s.call(Key::new(Q_BYNAME, i as u32));
                        match f.section_header_by_name(name) {
                            Ok(Some(x)) => {
                                s.u(1);
                                emit_shdr(s, &x);
                                s.done(true)
                            }
                            Ok(None) => {
                                s.u(0);
                                s.done(true)
                            }
                            Err(_) => s.done(false),
                        }
                    }
                }
            }
        }
        Err(_) => s.done(false),
    }
    for (k, name) in ["", ".absent", ".dyn", ".shstrtab", ".symtab", "\u{e9}", ".text", ".bss", ".debug_info", ".zdebug_info", ".note.gnu.build-id", ".gnu_debuglink", ".rela.dyn", ".comment", ".gnu.version_r"].iter().enumerate() {
        s.call(Key::new(Q_BYNAME, 5000 + k as u32));
        match f.section_header_by_name(name) {
            Ok(Some(x)) => {
                s.u(1);
                emit_shdr(s, &x);
                s.done(true)
            }
            Ok(None) => {
                s.u(0);
                s.done(true)
            }
            Err(_) => s.done(false),
        }
    }

    // per-section views
    if let Some(t) = shdrs {
        for (i, h) in t.iter().take(SECT_CAP).enumerate() {
            emit_section_views(s, &f, Q_SECDATA, i as u32, &h, flen);
        }
    }
    if let Some(t) = phdrs {
        for (j, p) in t.iter().take(SECT_CAP).enumerate() {
            emit_segment_views(s, &f, Q_SEGDATA, j as u32, &p, flen);
        }
    }

    // targeted accessors
    let mut nsyms = 0usize;
    s.call(Key::new(Q_SYMTAB, 0));
    match f.symbol_table() {
        Ok(Some((tab, strs))) => {
            s.u(1);
            s.done(true);
            emit_symtab(s, Key::new(Q_SYMTAB, 0), &tab, &strs, flen);
        }
        Ok(None) => {
            s.u(0);
            s.done(true)
        }
        Err(_) => s.done(false),
    }
    s.call(Key::new(Q_DYNSYM, 0));
    match f.dynamic_symbol_table() {
        Ok(Some((tab, strs))) => {
            s.u(1);
            s.done(true);
            nsyms = tab.len();
            emit_symtab(s, Key::new(Q_DYNSYM, 0), &tab, &strs, flen);
        }
        Ok(None) => {
            s.u(0);
            s.done(true)
        }
        Err(_) => s.done(false),
    }
    s.call(Key::new(Q_DYNAMIC, 0));
    match f.dynamic() {
        Ok(Some(tab)) => {
            s.u(1);
            s.done(true);
            emit_dynamic(s, Key::new(Q_DYNAMIC, 0), &tab, flen);
        }
        Ok(None) => {
            s.u(0);
            s.done(true)
        }
        Err(_) => s.done(false),
    }
    s.call(Key::new(Q_SYMVER, 0));
    match f.symbol_version_table() {
        Ok(Some(t)) => {
            s.u(1);
            s.done(true);
            emit_symver(s, Key::new(Q_SYMVER, 0), &t, nsyms, flen);
        }
        Ok(None) => {
            s.u(0);
            s.done(true)
        }
        Err(_) => s.done(false),
    }

    // one-pass discovery
    s.call(Key::new(Q_COMMON, 0));
    match f.find_common_data() {
        Ok(c) => {
            s.u(c.symtab.is_some() as u64);
            s.u(c.symtab_strs.is_some() as u64);
            s.u(c.dynsyms.is_some() as u64);
            s.u(c.dynsyms_strs.is_some() as u64);
            s.u(c.dynamic.is_some() as u64);
            s.u(c.sysv_hash.is_some() as u64);
            s.u(c.gnu_hash.is_some() as u64);
            s.done(true);
            if let (Some(tab), Some(strs)) = (&c.symtab, &c.symtab_strs) {
                emit_symtab(s, Key::new(Q_COMMON_SYMTAB, 0), tab, strs, flen);
            }
            if let (Some(tab), Some(strs)) = (&c.dynsyms, &c.dynsyms_strs) {
                emit_symtab(s, Key::new(Q_COMMON_DYNSYM, 0), tab, strs, flen);
                emit_hash_finds(s, c.sysv_hash.as_ref(), c.gnu_hash.as_ref(), tab, strs);
            }
            if let Some(d) = &c.dynamic {
                emit_dynamic(s, Key::new(Q_COMMON_DYNAMIC, 0), d, flen);
            }
        }
        Err(_) => s.done(false),
    }

    // caller-supplied headers
    if opts.crafted {
        let geo = craft_geometry(flen as u64);
        let types = [abi::SHT_PROGBITS, abi::SHT_NOBITS, abi::SHT_STRTAB, abi::SHT_REL, abi::SHT_RELA, abi::SHT_NOTE];
        let mut a = 0u32;
        for (gi, (off, size)) in geo.iter().enumerate() {
            for (ti, ty) in types.iter().enumerate() {
                // flags/alignment vary with the slot so that all values occur
                let flags = if (gi + ti) % 3 == 0 { abi::SHF_COMPRESSED as u64 | ((gi as u64 & 1) << 1) } else { 0 };
                let h = SectionHeader {
                    sh_name: 0,
                    sh_type: *ty,
                    sh_flags: flags,
                    sh_addr: 0,
                    sh_offset: *off,
                    sh_size: *size,
                    sh_link: 0,
                    sh_info: 0,
                    sh_addralign: ALIGNS[(gi + ti) % ALIGNS.len()],
                    sh_entsize: 0,
                };
                emit_section_views(s, &f, Q_CRAFT_SEC, a, &h, flen);
                a += 1;
            }
        }
        let mut a = 0u32;
        for (gi, (off, size)) in geo.iter().enumerate() {
            for ty in [abi::PT_NOTE, abi::PT_LOAD] {
                let p = ProgramHeader {
                    p_type: ty,
                    p_offset: *off,
                    p_vaddr: 0,
                    p_paddr: 0,
                    p_filesz: *size,
                    p_memsz: if gi % 2 == 0 { 0 } else { size.wrapping_add(7) },
                    p_flags: 4,
                    p_align: ALIGNS[gi % ALIGNS.len()],
                };
                emit_segment_views(s, &f, Q_CRAFT_SEG, a, &p, flen);
                a += 1;
            }
        }
    }
}
