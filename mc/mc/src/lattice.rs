//! Engine L: deviation-bounded lattice over whole files (DESIGN.md 2.4). All variants that replace
//! <= k sites of a skeleton by values of the boundary alphabets; all prefixes; suffix extensions.

use crate::framework::*;
use crate::skeleton::Skeleton;
use crate::util::hex;
use refmodel::image::Site;
use refmodel::layout::put;
use serde_json::{json, Value};

pub fn v8() -> Vec<u64> {
    vec![0, 1, 2, 3, 0x7f, 0x80, 0xfe, 0xff]
}
pub fn v16() -> Vec<u64> {
    let mut v = v8();
    v.extend([0x100, 0x7fff, 0x8000, 0xfeff, 0xff00, 0xff01, 0xfffe, 0xffff]);
    v
}
pub fn v32() -> Vec<u64> {
    let mut v = v16();
    v.extend([0x10000, 0x10001, 1 << 20, 1 << 24, (1 << 31) - 1, 1 << 31, (1 << 31) + 1, (1u64 << 32) - 2, (1u64 << 32) - 1]);
    v
}
pub fn v64() -> Vec<u64> {
    let mut v = v32();
    v.extend([
        1 << 32,
        (1 << 32) + 1,
        1 << 40,
        1 << 58,
        1 << 59,
        1 << 60,
        (1u64 << 63) - 1,
        1 << 63,
        (1u64 << 63) + 1,
        u64::MAX - 63,
        u64::MAX - 1,
        u64::MAX,
    ]);
    v
}

/// Value alphabet of one site: V(width) + values relative to the file length and to the site's
/// valid value; the valid value itself is excluded (that is deviation 0).
pub fn site_values(site: &Site, file_len: usize) -> Vec<u64> {
    let mut v = match site.width {
        1 => v8(),
        2 => v16(),
        4 => v32(),
        _ => v64(),
    };
    let l = file_len as u64;
    if site.width >= 2 {
        let e = if site.mult > 0 { site.mult } else { 1 };
        for x in [l.wrapping_sub(1), l, l + 1, l.wrapping_sub(e), l.wrapping_sub(e) + 1, l.wrapping_sub(site.valid), l.wrapping_sub(site.valid).wrapping_add(1)] {
            v.push(x);
        }
        if site.mult > 0 {
            // smallest counts whose product with the entry size overflows / exceeds the file
            v.push(l / e);
            v.push(l / e + 1);
            v.push(u64::MAX / e);
            v.push(u64::MAX / e + 1);
        }
    }
    // role-specific values: every section / segment type the crate distinguishes, every low flag bit
    if site.role.ends_with(".sh_type") {
        v.extend([4, 5, 6, 7, 8, 9, 10, 11, 14, 15, 16, 17, 18, 0x6fff_fff5, 0x6fff_fff6, 0x6fff_fff7, 0x6fff_fffd, 0x6fff_fffe, 0x6fff_ffff]);
    }
    if site.role.ends_with(".p_type") {
        v.extend([4, 5, 6, 7, 0x6474_e550, 0x6474_e551, 0x6474_e552, 0x6474_e553]);
    }
    if site.role.ends_with(".sh_flags") {
        v.extend((0..13).map(|b| 1u64 << b));
        v.extend([0x802, 0x803]);
    }
    if site.role.ends_with(".e_type") {
        v.extend([4, 5, 0xfe00, 0xff00]);
    }
    v.push(site.valid.wrapping_sub(1));
    v.push(site.valid.wrapping_add(1));
    v.push(site.valid.wrapping_mul(2));
    v.push(site.valid ^ 0x800); // toggles SHF_COMPRESSED on flag fields, harmless elsewhere
    let mask = if site.width >= 8 { u64::MAX } else { (1u64 << (8 * site.width)) - 1 };
    let mut out: Vec<u64> = Vec::new();
    for x in v {
        let x = x & mask;
        if x != (site.valid & mask) && !out.contains(&x) {
            out.push(x);
        }
    }
    out
}

/// What a property does with one variant.
pub trait Oracle: Sync + Send {
    fn check(&self, sk: &Skeleton, bytes: &[u8], out: &mut Outcome);
}

pub struct PreparedSkeleton {
    pub sk: Skeleton,
    pub vals: Vec<Vec<u64>>,
    /// prefix sums over sites for k = 1
    pub cum1: Vec<u64>,
}

impl PreparedSkeleton {
    pub fn new(sk: Skeleton, site_filter: &dyn Fn(&Site) -> bool) -> PreparedSkeleton {
        let mut sk = sk;
        let sites: Vec<Site> = sk.sites.iter().filter(|s| site_filter(s)).cloned().collect();
        sk.sites = sites;
        let vals: Vec<Vec<u64>> = sk.sites.iter().map(|s| site_values(s, sk.bytes.len())).collect();
        let mut cum1 = vec![0u64];
        for v in &vals {
            cum1.push(cum1.last().unwrap() + v.len() as u64);
        }
        PreparedSkeleton { sk, vals, cum1 }
    }
    pub fn k1_count(&self) -> u64 {
        *self.cum1.last().unwrap()
    }
    pub fn k1_decode(&self, idx: u64) -> (usize, u64) {
        let s = match self.cum1.binary_search(&idx) {
            Ok(mut p) => {
                // several equal entries possible when a site has no values
                while p + 1 < self.cum1.len() && self.cum1[p + 1] == idx {
                    p += 1;
                }
                p
            }
            Err(p) => p - 1,
        };
        (s, self.vals[s][(idx - self.cum1[s]) as usize])
    }
    pub fn apply(&self, buf: &mut [u8], site: usize, value: u64) {
        let st = &self.sk.sites[site];
        put(buf, st.off, st.width, self.sk.enc.order, value);
    }
}

/// k = 0 and k = 1: index 0 is the unmodified skeleton, 1.. are the single deviations.
pub struct Single<O: Oracle> {
    pub p: PreparedSkeleton,
    pub oracle: O,
    pub label: &'static str,
}
impl<O: Oracle> Space for Single<O> {
    fn name(&self) -> String {
        format!("{}: k<=1 deviations of {} ({} sites)", self.label, self.p.sk.name, self.p.sk.sites.len())
    }
    fn size(&self) -> u64 {
        1 + self.p.k1_count()
    }
    fn describe(&self, idx: u64) -> Value {
        if idx == 0 {
            return json!({"skeleton": self.p.sk.name, "deviations": []});
        }
        let (s, v) = self.p.k1_decode(idx - 1);
        let st = &self.p.sk.sites[s];
        json!({"skeleton": self.p.sk.name, "deviations": [{"site": st.role, "offset": st.off, "width": st.width, "valid": st.valid, "value": format!("{:#x}", v)}]})
    }
    fn run(&self, idx: u64, out: &mut Outcome) {
        if idx == 0 {
            self.oracle.check(&self.p.sk, &self.p.sk.bytes, out);
            return;
        }
        let (s, v) = self.p.k1_decode(idx - 1);
        let mut buf = self.p.sk.bytes.clone();
        self.p.apply(&mut buf, s, v);
        self.oracle.check(&self.p.sk, &buf, out);
    }
}

/// k = 2 over the pairs admitted by `pairs` (list of (site i, site j)); full value product.
pub struct Pairs<O: Oracle> {
    pub p: PreparedSkeleton,
    pub pairs: Vec<(usize, usize)>,
    pub cum: Vec<u64>,
    pub oracle: O,
    pub label: &'static str,
}
impl<O: Oracle> Pairs<O> {
    pub fn new(p: PreparedSkeleton, pairs: Vec<(usize, usize)>, oracle: O, label: &'static str) -> Pairs<O> {
        let mut cum = vec![0u64];
        for (i, j) in &pairs {
            cum.push(cum.last().unwrap() + (p.vals[*i].len() * p.vals[*j].len()) as u64);
        }
        Pairs { p, pairs, cum, oracle, label }
    }
    fn decode(&self, idx: u64) -> (usize, u64, usize, u64) {
        let pi = match self.cum.binary_search(&idx) {
            Ok(mut p) => {
                while p + 1 < self.cum.len() && self.cum[p + 1] == idx {
                    p += 1;
                }
                p
            }
            Err(p) => p - 1,
        };
        let (i, j) = self.pairs[pi];
        let r = idx - self.cum[pi];
        let nj = self.p.vals[j].len() as u64;
        (i, self.p.vals[i][(r / nj) as usize], j, self.p.vals[j][(r % nj) as usize])
    }
}
impl<O: Oracle> Space for Pairs<O> {
    fn name(&self) -> String {
        format!("{}: k=2 deviations of {} ({} site pairs)", self.label, self.p.sk.name, self.pairs.len())
    }
    fn size(&self) -> u64 {
        *self.cum.last().unwrap()
    }
    fn describe(&self, idx: u64) -> Value {
        let (i, vi, j, vj) = self.decode(idx);
        let a = &self.p.sk.sites[i];
        let b = &self.p.sk.sites[j];
        json!({"skeleton": self.p.sk.name, "deviations": [
            {"site": a.role, "offset": a.off, "width": a.width, "valid": a.valid, "value": format!("{:#x}", vi)},
            {"site": b.role, "offset": b.off, "width": b.width, "valid": b.valid, "value": format!("{:#x}", vj)}]})
    }
    fn run(&self, idx: u64, out: &mut Outcome) {
        let (i, vi, j, vj) = self.decode(idx);
        let mut buf = self.p.sk.bytes.clone();
        self.p.apply(&mut buf, i, vi);
        self.p.apply(&mut buf, j, vj);
        self.oracle.check(&self.p.sk, &buf, out);
    }
}

/// k = 3 over the given site triples; full value product.
pub struct Triples<O: Oracle> {
    pub p: PreparedSkeleton,
    pub triples: Vec<(usize, usize, usize)>,
    pub cum: Vec<u64>,
    pub oracle: O,
    pub label: &'static str,
}
impl<O: Oracle> Triples<O> {
    pub fn new(p: PreparedSkeleton, triples: Vec<(usize, usize, usize)>, oracle: O, label: &'static str) -> Triples<O> {
        let mut cum = vec![0u64];
        for (i, j, k) in &triples {
            cum.push(cum.last().unwrap() + (p.vals[*i].len() * p.vals[*j].len() * p.vals[*k].len()) as u64);
        }
        Triples { p, triples, cum, oracle, label }
    }
    fn decode(&self, idx: u64) -> [(usize, u64); 3] {
        let ti = match self.cum.binary_search(&idx) {
            Ok(mut p) => {
                while p + 1 < self.cum.len() && self.cum[p + 1] == idx {
                    p += 1;
                }
                p
            }
            Err(p) => p - 1,
        };
        let (i, j, k) = self.triples[ti];
        let mut r = idx - self.cum[ti];
        let nk = self.p.vals[k].len() as u64;
        let nj = self.p.vals[j].len() as u64;
        let vk = self.p.vals[k][(r % nk) as usize];
        r /= nk;
        let vj = self.p.vals[j][(r % nj) as usize];
        r /= nj;
        [(i, self.p.vals[i][r as usize]), (j, vj), (k, vk)]
    }
}
impl<O: Oracle> Space for Triples<O> {
    fn name(&self) -> String {
        format!("{}: k=3 deviations of {} ({} site triples)", self.label, self.p.sk.name, self.triples.len())
    }
    fn size(&self) -> u64 {
        *self.cum.last().unwrap()
    }
    fn describe(&self, idx: u64) -> Value {
        let d = self.decode(idx);
        let devs: Vec<Value> = d.iter().map(|(s, v)| {
            let st = &self.p.sk.sites[*s];
            json!({"site": st.role, "offset": st.off, "width": st.width, "valid": st.valid, "value": format!("{:#x}", v)})
        }).collect();
        json!({"skeleton": self.p.sk.name, "deviations": devs})
    }
    fn run(&self, idx: u64, out: &mut Outcome) {
        let d = self.decode(idx);
        let mut buf = self.p.sk.bytes.clone();
        for (s, v) in d {
            self.p.apply(&mut buf, s, v);
        }
        self.oracle.check(&self.p.sk, &buf, out);
    }
}

/// All triples among the sites whose role is in `roles`.
pub fn triples_of(p: &PreparedSkeleton, roles: &[&str]) -> Vec<(usize, usize, usize)> {
    let idx: Vec<usize> = p.sk.sites.iter().enumerate().filter(|(_, s)| roles.contains(&s.role.as_str())).map(|(i, _)| i).collect();
    let mut out = Vec::new();
    for a in 0..idx.len() {
        for b in a + 1..idx.len() {
            for c in b + 1..idx.len() {
                out.push((idx[a], idx[b], idx[c]));
            }
        }
    }
    out
}

/// Pairs the code couples: sites of the same group (one header), ehdr x everything in a header
/// group, a section body with its own header, shdr x the shdr its sh_link designates.
pub fn coupled_pairs(p: &PreparedSkeleton, header_only: bool) -> Vec<(usize, usize)> {
    let s = &p.sk.sites;
    let mut out = Vec::new();
    for i in 0..s.len() {
        for j in i + 1..s.len() {
            let (a, b) = (&s[i], &s[j]);
            let body_a = a.group >= 3000;
            let body_b = b.group >= 3000;
            if header_only && (body_a || body_b) {
                continue;
            }
            let same = a.group == b.group;
            let ehdr_x = (a.group == 0 && !body_b) || (b.group == 0 && !body_a);
            let body_hdr = (body_a && b.group == a.group - 2000) || (body_b && a.group == b.group - 2000);
            if same || ehdr_x || body_hdr {
                out.push((i, j));
            }
        }
    }
    out
}

/// Every pair of header/table-field sites (no body sites).
pub fn all_header_pairs(p: &PreparedSkeleton) -> Vec<(usize, usize)> {
    let s = &p.sk.sites;
    let mut out = Vec::new();
    for i in 0..s.len() {
        for j in i + 1..s.len() {
            if s[i].group < 3000 && s[j].group < 3000 {
                out.push((i, j));
            }
        }
    }
    out
}

/// Crash points: every prefix length 0..=L, then suffix extensions.
pub struct Prefixes<O: PrefixOracle> {
    pub sk: Skeleton,
    pub oracle: O,
    pub label: &'static str,
}
pub trait PrefixOracle: Sync + Send {
    /// `whole` = the complete file, `cut` = the truncated or extended file
    fn check(&self, sk: &Skeleton, whole: &[u8], cut: &[u8], out: &mut Outcome);
}
pub const SUFFIX_BYTES: [u8; 3] = [0x00, 0xff, 0x7f];
impl<O: PrefixOracle> Space for Prefixes<O> {
    fn name(&self) -> String {
        format!("{}: every prefix 0..=L and 12 suffix extensions of {} (L = {})", self.label, self.sk.name, self.sk.bytes.len())
    }
    fn size(&self) -> u64 {
        self.sk.bytes.len() as u64 + 1 + 12
    }
    fn describe(&self, idx: u64) -> Value {
        let l = self.sk.bytes.len() as u64;
        if idx <= l {
            json!({"skeleton": self.sk.name, "prefix_len": idx, "file_len": l})
        } else {
            let k = idx - l - 1;
            json!({"skeleton": self.sk.name, "suffix_len": k / 3 + 1, "suffix_byte": hex(&[SUFFIX_BYTES[(k % 3) as usize]])})
        }
    }
    fn run(&self, idx: u64, out: &mut Outcome) {
        let l = self.sk.bytes.len() as u64;
        if idx <= l {
            self.oracle.check(&self.sk, &self.sk.bytes, &self.sk.bytes[..idx as usize], out);
        } else {
            let k = idx - l - 1;
            let mut ext = self.sk.bytes.clone();
            for _ in 0..(k / 3 + 1) {
                ext.push(SUFFIX_BYTES[(k % 3) as usize]);
            }
            // the original is a prefix of the extension
            self.oracle.check(&self.sk, &ext, &self.sk.bytes, out);
            out.count("suffix_case");
        }
    }
}
