//! Engine S plumbing: scripted Read+Seek environment with a full I/O log, the operation alphabet
//! of `ElfStream`, slice/stream twins of every operation, designated-range reference model.

use crate::alloc::{self, outside, subject};
use crate::driver::*;
use crate::util::Fnv;
use elf::abi;
use elf::endian::AnyEndian;
use elf::section::SectionHeader;
use elf::segment::ProgramHeader;
use elf::{ElfBytes, ElfStream};
use std::io::{Error, ErrorKind, Read, Seek, SeekFrom};
use std::sync::{Arc, Mutex};

// ------------------------------------------------------------------ environment
#[derive(Clone, Copy, Debug, PartialEq, Eq, Hash, PartialOrd, Ord)]
pub enum Choice {
    /// legal answers
    Short1,
    Short2,
    ShortHalf,
    ShortNm2,
    ShortNm1,
    Interrupted,
    Interrupted2,
    /// faults
    ReadErr,
    Eof,
    ShortThenEof,
    SeekErr,
    /// permanent variants: every later I/O call fails too
    ReadErrDead,
    SeekErrDead,
    /// a seek that fails with ErrorKind::Interrupted (std does not retry seeks), once / twice in a row
    SeekInterrupted,
    SeekInterrupted2,
    /// from this call on every read answers Ok(0) (the stream has shrunk)
    EofDead,
    /// read errors of the kinds a caller might be tempted to retry
    ReadWouldBlock,
    ReadTimedOut,
    /// partial progress (1 byte), then an error on the continuation of the same read, then fine
    ShortThenErr,
    ShortThenWouldBlock,
    ShortThenTimedOut,
}
pub const LEGAL: [Choice; 7] = [
    Choice::Short1,
    Choice::Short2,
    Choice::ShortHalf,
    Choice::ShortNm2,
    Choice::ShortNm1,
    Choice::Interrupted,
    Choice::Interrupted2,
];
pub const FAULTS: [Choice; 11] = [
    Choice::ReadErr,
    Choice::Eof,
    Choice::ShortThenEof,
    Choice::SeekErr,
    Choice::ReadErrDead,
    Choice::SeekErrDead,
    Choice::ReadWouldBlock,
    Choice::ReadTimedOut,
    Choice::ShortThenErr,
    Choice::ShortThenWouldBlock,
    Choice::ShortThenTimedOut,
];
/// the C17 alphabet: the faults plus plain short reads (the property lists "short read" among the
/// fault kinds; a correct reader absorbs them, so the answer must equal the fault-free one)
pub const FAULTS_AND_SHORT: [Choice; 16] = [
    Choice::ReadWouldBlock,
    Choice::ReadTimedOut,
    Choice::ShortThenErr,
    Choice::ShortThenWouldBlock,
    Choice::ShortThenTimedOut,
    Choice::SeekInterrupted,
    Choice::SeekInterrupted2,
    Choice::EofDead,
    Choice::ReadErr,
    Choice::Eof,
    Choice::ShortThenEof,
    Choice::SeekErr,
    Choice::ReadErrDead,
    Choice::SeekErrDead,
    Choice::Short1,
    Choice::ShortHalf,
];

impl Choice {
    pub fn is_fault(&self) -> bool {
        FAULTS.contains(self)
    }
    pub fn from_name(s: &str) -> Option<Choice> {
        LEGAL.iter().chain(FAULTS_AND_SHORT.iter()).copied().find(|c| format!("{:?}", c) == s)
    }
}

#[derive(Clone, Debug, PartialEq, Eq)]
pub enum IoEvent {
    Read { pos: u64, req: usize, got: usize },
    ReadErr { pos: u64, req: usize },
    Seek { to: u64 },
    SeekErr,
}

#[derive(Debug, Default)]
pub struct EnvState {
    pub pos: u64,
    pub dead: bool,
    /// script for the current operation: (call index, choice); indexes count reads+seeks from 0
    pub script: Vec<(u32, Choice)>,
    pub call: u32,
    pub log: Vec<IoEvent>,
    /// a scripted choice did not apply (index beyond the calls made, short length not < request, ...)
    pub applied: u32,
    /// pending second step of a two-step choice (Interrupted2, ShortThenEof)
    pending: Option<Choice>,
    /// every later read answers Ok(0)
    pub eof_forever: bool,
}

pub struct EnvReader {
    pub data: Arc<Vec<u8>>,
    pub st: Arc<Mutex<EnvState>>,
}

impl std::fmt::Debug for EnvReader {
    fn fmt(&self, f: &mut std::fmt::Formatter<'_>) -> std::fmt::Result {
        let st = self.st.lock().unwrap();
        write!(f, "EnvReader(pos={}, dead={})", st.pos, st.dead)
    }
}

impl EnvReader {
    pub fn new(data: Arc<Vec<u8>>) -> (EnvReader, Arc<Mutex<EnvState>>) {
        let st = Arc::new(Mutex::new(EnvState::default()));
        (EnvReader { data, st: st.clone() }, st)
    }
}

fn scripted(st: &mut EnvState) -> Option<Choice> {
    if let Some(p) = st.pending.take() {
        st.call += 1;
        return Some(p);
    }
    let idx = st.call;
    st.call += 1;
    st.script.iter().find(|(i, _)| *i == idx).map(|(_, c)| *c)
}

impl Read for EnvReader {
    fn read(&mut self, buf: &mut [u8]) -> std::io::Result<usize> {
        outside(|| {
            let mut st = self.st.lock().unwrap();
            let pos = st.pos;
            let req = buf.len();
            if st.call > 100_000 {
                // a reader that is asked again and again without progress: the caller is spinning
                // (the guard is released first so that the state mutex is not poisoned)
                drop(st);
                panic!("runaway I/O loop: more than 100000 read/seek calls in one operation");
            }
            if st.eof_forever {
                st.call += 1;
                st.log.push(IoEvent::Read { pos, req, got: 0 });
                return Ok(0);
            }
            if st.dead {
                st.call += 1;
                st.log.push(IoEvent::ReadErr { pos, req });
                return Err(Error::new(ErrorKind::Other, "injected: device dead"));
            }
            let avail = (self.data.len() as u64).saturating_sub(pos) as usize;
            let full = req.min(avail);
            let choice = scripted(&mut st);
            let mut n = full;
            if let Some(c) = choice {
                let short = |k: usize| if k >= 1 && k < full { Some(k) } else { None };
                match c {
                    Choice::Short1
                    | Choice::Short2
                    | Choice::ShortHalf
                    | Choice::ShortNm2
                    | Choice::ShortNm1
                    | Choice::ShortThenEof
                    | Choice::ShortThenErr
                    | Choice::ShortThenWouldBlock
                    | Choice::ShortThenTimedOut => {
                        let k = match c {
                            Choice::Short1 | Choice::ShortThenEof | Choice::ShortThenErr | Choice::ShortThenWouldBlock | Choice::ShortThenTimedOut => short(1),
                            Choice::Short2 => short(2),
                            Choice::ShortHalf => short(full / 2),
                            Choice::ShortNm2 => short(full.wrapping_sub(2)),
                            _ => short(full.wrapping_sub(1)),
                        };
                        // distinct choices must give distinct answers: Short2 == Short1 for n = 3 etc. is fine
                        // (a duplicate execution), but an inapplicable choice is reported as such
                        if let Some(k) = k {
                            n = k;
                            st.applied += 1;
                            st.pending = match c {
                                Choice::ShortThenEof => Some(Choice::Eof),
                                Choice::ShortThenErr => Some(Choice::ReadErr),
                                Choice::ShortThenWouldBlock => Some(Choice::ReadWouldBlock),
                                Choice::ShortThenTimedOut => Some(Choice::ReadTimedOut),
                                _ => st.pending,
                            };
                        }
                    }
                    Choice::Interrupted | Choice::Interrupted2 => {
                        if req > 0 {
                            st.applied += 1;
                            if c == Choice::Interrupted2 {
                                st.pending = Some(Choice::Interrupted);
                            }
                            st.log.push(IoEvent::ReadErr { pos, req });
                            return Err(Error::new(ErrorKind::Interrupted, "injected: interrupted"));
                        }
                    }
                    Choice::ReadErr | Choice::ReadErrDead | Choice::ReadWouldBlock | Choice::ReadTimedOut => {
                        st.applied += 1;
                        if c == Choice::ReadErrDead {
                            st.dead = true;
                        }
                        st.log.push(IoEvent::ReadErr { pos, req });
                        let kind = match c {
                            Choice::ReadWouldBlock => ErrorKind::WouldBlock,
                            Choice::ReadTimedOut => ErrorKind::TimedOut,
                            _ => ErrorKind::Other,
                        };
                        return Err(Error::new(kind, "injected: read error"));
                    }
                    Choice::Eof | Choice::EofDead => {
                        if full > 0 {
                            st.applied += 1;
                            if c == Choice::EofDead {
                                st.eof_forever = true;
                            }
                            st.log.push(IoEvent::Read { pos, req, got: 0 });
                            return Ok(0);
                        }
                    }
                    Choice::SeekErr | Choice::SeekErrDead | Choice::SeekInterrupted | Choice::SeekInterrupted2 => {}
                }
            }
            buf[..n].copy_from_slice(&self.data[pos as usize..pos as usize + n]);
            st.pos += n as u64;
            st.log.push(IoEvent::Read { pos, req, got: n });
            Ok(n)
        })
    }
}

impl Seek for EnvReader {
    fn seek(&mut self, from: SeekFrom) -> std::io::Result<u64> {
        outside(|| {
            let mut st = self.st.lock().unwrap();
            if st.dead {
                st.call += 1;
                st.log.push(IoEvent::SeekErr);
                return Err(Error::new(ErrorKind::Other, "injected: device dead"));
            }
            let choice = scripted(&mut st);
            if let Some(c) = choice {
                if c == Choice::SeekInterrupted || c == Choice::SeekInterrupted2 {
                    st.applied += 1;
                    if c == Choice::SeekInterrupted2 {
                        st.pending = Some(Choice::SeekInterrupted);
                    }
                    st.log.push(IoEvent::SeekErr);
                    return Err(Error::new(ErrorKind::Interrupted, "injected: interrupted seek"));
                }
                if c == Choice::SeekErr || c == Choice::SeekErrDead {
                    st.applied += 1;
                    if c == Choice::SeekErrDead {
                        st.dead = true;
                    }
                    st.log.push(IoEvent::SeekErr);
                    return Err(Error::new(ErrorKind::Other, "injected: seek error"));
                }
            }
            let len = self.data.len() as i128;
            let target: i128 = match from {
                SeekFrom::Start(o) => o as i128,
                SeekFrom::End(d) => len + d as i128,
                SeekFrom::Current(d) => st.pos as i128 + d as i128,
            };
            if target < 0 {
                st.log.push(IoEvent::SeekErr);
                return Err(Error::new(ErrorKind::InvalidInput, "seek before start"));
            }
            let to = target as u64;
            st.pos = to;
            st.log.push(IoEvent::Seek { to });
            Ok(to)
        })
    }
}

// ------------------------------------------------------------------ operations
#[derive(Clone, Copy, Debug, PartialEq, Eq, Hash, PartialOrd, Ord)]
pub enum OpKind {
    SectionData,
    AsStrtab,
    AsRels,
    AsRelas,
    AsNotes,
    SegNotes,
    SymbolTable,
    DynSymbolTable,
    Dynamic,
    SymVer,
    ShdrsWithStrtab,
    ByName,
}

/// One stream query. `arg` indexes the image's header pool (shdrs / phdrs / names).
#[derive(Clone, Copy, Debug, PartialEq, Eq, Hash, PartialOrd, Ord)]
pub struct Op {
    pub kind: OpKind,
    pub arg: u16,
}

pub struct Image {
    pub name: String,
    pub bytes: Arc<Vec<u8>>,
    /// section headers ops may pass: the file's own followed by crafted ones
    pub shdr_pool: Vec<SectionHeader>,
    pub phdr_pool: Vec<ProgramHeader>,
    pub names: Vec<String>,
    pub ops: Vec<Op>,
}

#[derive(Clone, Copy, Debug, PartialEq, Eq, Hash)]
pub struct OpResult {
    pub ok: bool,
    pub digest: u64,
    pub panicked: bool,
}

struct FoldSink {
    h: Fnv,
    last: Key,
}
impl Sink for FoldSink {
    fn call(&mut self, key: Key) {
        self.last = key;
        self.h.u64(key.pack());
    }
    fn u(&mut self, v: u64) {
        self.h.u64(v)
    }
    fn b(&mut self, b: &[u8]) {
        self.h.bytes(b)
    }
    fn done(&mut self, ok: bool) {
        self.h.u8(ok as u8)
    }
    fn runaway(&mut self, _key: Key) {
        self.h.u64(0xdead)
    }
    fn last_key(&self) -> Key {
        self.last
    }
}

const K: Key = Key { q: 0, a: 0, sub: 0, sa: 0, v: 0 };

macro_rules! fold {
    ($body:expr) => {{
        let mut s = FoldSink { h: Fnv::new(), last: K };
        let ok: bool = ($body)(&mut s);
        (ok, s.h.get())
    }};
}

pub fn is_compressed(h: &SectionHeader) -> bool {
    h.sh_flags & abi::SHF_COMPRESSED as u64 != 0
}

/// Slice twin of an operation.
pub fn run_op_slice(f: &ElfBytes<'_, AnyEndian>, img: &Image, op: Op) -> OpResult {
    let flen = img.bytes.len();
    let r = subject(|| match op.kind {
        OpKind::SectionData => {
            let h = &img.shdr_pool[op.arg as usize];
            fold!(|s: &mut FoldSink| match f.section_data(h) {
                Ok((d, c)) => {
                    s.b(d);
                    match c {
                        Some(c) => {
                            s.u(1);
                            s.u(c.ch_type as u64);
                            s.u(c.ch_size);
                            s.u(c.ch_addralign);
                        }
                        None => s.u(0),
                    }
                    true
                }
                Err(_) => false,
            })
        }
        OpKind::AsStrtab => {
            let h = &img.shdr_pool[op.arg as usize];
            fold!(|s: &mut FoldSink| match f.section_data_as_strtab(h) {
                Ok(st) => {
                    emit_strtab_probe(s, K, &st, (h.sh_size as usize).min(flen));
                    true
                }
                Err(_) => false,
            })
        }
        OpKind::AsRels => {
            let h = &img.shdr_pool[op.arg as usize];
            fold!(|s: &mut FoldSink| match f.section_data_as_rels(h) {
                Ok(it) => {
                    emit_rels(s, K, it, flen);
                    true
                }
                Err(_) => false,
            })
        }
        OpKind::AsRelas => {
            let h = &img.shdr_pool[op.arg as usize];
            fold!(|s: &mut FoldSink| match f.section_data_as_relas(h) {
                Ok(it) => {
                    emit_relas(s, K, it, flen);
                    true
                }
                Err(_) => false,
            })
        }
        OpKind::AsNotes => {
            let h = &img.shdr_pool[op.arg as usize];
            fold!(|s: &mut FoldSink| match f.section_data_as_notes(h) {
                Ok(it) => {
                    emit_notes(s, K, it, flen);
                    true
                }
                Err(_) => false,
            })
        }
        OpKind::SegNotes => {
            let p = &img.phdr_pool[op.arg as usize];
            fold!(|s: &mut FoldSink| match f.segment_data_as_notes(p) {
                Ok(it) => {
                    emit_notes(s, K, it, flen);
                    true
                }
                Err(_) => false,
            })
        }
        OpKind::SymbolTable => fold!(|s: &mut FoldSink| match f.symbol_table() {
            Ok(Some((t, st))) => {
                s.u(1);
                emit_symtab(s, K, &t, &st, flen);
                true
            }
            Ok(None) => {
                s.u(0);
                true
            }
            Err(_) => false,
        }),
        OpKind::DynSymbolTable => fold!(|s: &mut FoldSink| match f.dynamic_symbol_table() {
            Ok(Some((t, st))) => {
                s.u(1);
                emit_symtab(s, K, &t, &st, flen);
                true
            }
            Ok(None) => {
                s.u(0);
                true
            }
            Err(_) => false,
        }),
        OpKind::Dynamic => fold!(|s: &mut FoldSink| match f.dynamic() {
            Ok(Some(t)) => {
                s.u(1);
                emit_dynamic(s, K, &t, flen);
                true
            }
            Ok(None) => {
                s.u(0);
                true
            }
            Err(_) => false,
        }),
        OpKind::SymVer => fold!(|s: &mut FoldSink| match f.symbol_version_table() {
            Ok(Some(t)) => {
                s.u(1);
                emit_symver(s, K, &t, 8, flen);
                true
            }
            Ok(None) => {
                s.u(0);
                true
            }
            Err(_) => false,
        }),
        OpKind::ShdrsWithStrtab => fold!(|s: &mut FoldSink| match f.section_headers_with_strtab() {
            Ok((sh, st)) => {
                match sh {
                    Some(t) => {
                        let mut n = 0u64;
                        for h in t.iter() {
                            emit_shdr(s, &h);
                            n += 1;
                        }
                        s.u(n);
                        if let Some(st) = st {
                            s.u(1);
                            for (i, h) in t.iter().enumerate().take(96) {
                                emit_strtab_at(s, K, &st, i as u32, h.sh_name as usize);
                            }
                        } else {
                            s.u(0);
                        }
                    }
                    None => {
                        s.u(0);
                        s.u(0);
                    }
                }
                true
            }
            Err(_) => false,
        }),
        OpKind::ByName => {
            let name = &img.names[op.arg as usize];
            fold!(|s: &mut FoldSink| match f.section_header_by_name(name) {
                Ok(Some(h)) => {
                    s.u(1);
                    emit_shdr(s, &h);
                    true
                }
                Ok(None) => {
                    s.u(0);
                    true
                }
                Err(_) => false,
            })
        }
    });
    match r {
        Ok((ok, digest)) => OpResult { ok, digest, panicked: false },
        Err(_) => OpResult { ok: false, digest: 0, panicked: true },
    }
}

pub type Stream = ElfStream<AnyEndian, EnvReader>;

/// Stream twin of an operation. Returns the result and the panic message, if any.
pub fn run_op_stream(f: &mut Stream, img: &Image, op: Op) -> (OpResult, Option<String>) {
    let flen = img.bytes.len();
    let r = subject(|| match op.kind {
        OpKind::SectionData => {
            let h = &img.shdr_pool[op.arg as usize];
            fold!(|s: &mut FoldSink| match f.section_data(h) {
                Ok((d, c)) => {
                    s.b(d);
                    match c {
                        Some(c) => {
                            s.u(1);
                            s.u(c.ch_type as u64);
                            s.u(c.ch_size);
                            s.u(c.ch_addralign);
                        }
                        None => s.u(0),
                    }
                    true
                }
                Err(_) => false,
            })
        }
        OpKind::AsStrtab => {
            let h = &img.shdr_pool[op.arg as usize];
            fold!(|s: &mut FoldSink| match f.section_data_as_strtab(h) {
                Ok(st) => {
                    emit_strtab_probe(s, K, &st, (h.sh_size as usize).min(flen));
                    true
                }
                Err(_) => false,
            })
        }
        OpKind::AsRels => {
            let h = &img.shdr_pool[op.arg as usize];
            fold!(|s: &mut FoldSink| match f.section_data_as_rels(h) {
                Ok(it) => {
                    emit_rels(s, K, it, flen);
                    true
                }
                Err(_) => false,
            })
        }
        OpKind::AsRelas => {
            let h = &img.shdr_pool[op.arg as usize];
            fold!(|s: &mut FoldSink| match f.section_data_as_relas(h) {
                Ok(it) => {
                    emit_relas(s, K, it, flen);
                    true
                }
                Err(_) => false,
            })
        }
        OpKind::AsNotes => {
            let h = &img.shdr_pool[op.arg as usize];
            fold!(|s: &mut FoldSink| match f.section_data_as_notes(h) {
                Ok(it) => {
                    emit_notes(s, K, it, flen);
                    true
                }
                Err(_) => false,
            })
        }
        OpKind::SegNotes => {
            let p = &img.phdr_pool[op.arg as usize];
            fold!(|s: &mut FoldSink| match f.segment_data_as_notes(p) {
                Ok(it) => {
                    emit_notes(s, K, it, flen);
                    true
                }
                Err(_) => false,
            })
        }
        OpKind::SymbolTable => fold!(|s: &mut FoldSink| match f.symbol_table() {
            Ok(Some((t, st))) => {
                s.u(1);
                emit_symtab(s, K, &t, &st, flen);
                true
            }
            Ok(None) => {
                s.u(0);
                true
            }
            Err(_) => false,
        }),
        OpKind::DynSymbolTable => fold!(|s: &mut FoldSink| match f.dynamic_symbol_table() {
            Ok(Some((t, st))) => {
                s.u(1);
                emit_symtab(s, K, &t, &st, flen);
                true
            }
            Ok(None) => {
                s.u(0);
                true
            }
            Err(_) => false,
        }),
        OpKind::Dynamic => fold!(|s: &mut FoldSink| match f.dynamic() {
            Ok(Some(t)) => {
                s.u(1);
                emit_dynamic(s, K, &t, flen);
                true
            }
            Ok(None) => {
                s.u(0);
                true
            }
            Err(_) => false,
        }),
        OpKind::SymVer => fold!(|s: &mut FoldSink| match f.symbol_version_table() {
            Ok(Some(t)) => {
                s.u(1);
                emit_symver(s, K, &t, 8, flen);
                true
            }
            Ok(None) => {
                s.u(0);
                true
            }
            Err(_) => false,
        }),
        OpKind::ShdrsWithStrtab => fold!(|s: &mut FoldSink| match f.section_headers_with_strtab() {
            Ok((sh, st)) => {
                if sh.is_empty() {
                    s.u(0);
                    s.u(0);
                } else {
                    let mut n = 0u64;
                    for h in sh.iter() {
                        emit_shdr(s, h);
                        n += 1;
                    }
                    s.u(n);
                    if let Some(st) = st {
                        s.u(1);
                        for (i, h) in sh.iter().enumerate().take(96) {
                            emit_strtab_at(s, K, &st, i as u32, h.sh_name as usize);
                        }
                    } else {
                        s.u(0);
                    }
                }
                true
            }
            Err(_) => false,
        }),
        OpKind::ByName => {
            let name = &img.names[op.arg as usize];
            fold!(|s: &mut FoldSink| match f.section_header_by_name(name) {
                Ok(Some(h)) => {
                    s.u(1);
                    emit_shdr(s, h);
                    true
                }
                Ok(None) => {
                    s.u(0);
                    true
                }
                Err(_) => false,
            })
        }
    });
    match r {
        Ok((ok, digest)) => (OpResult { ok, digest, panicked: false }, None),
        Err(m) => (OpResult { ok: false, digest: 0, panicked: true }, Some(m)),
    }
}

/// Digest of what opening yields (ehdr, shdrs, phdrs), identical construction for both parsers.
pub fn open_digest_slice(f: &ElfBytes<'_, AnyEndian>) -> u64 {
    let mut s = FoldSink { h: Fnv::new(), last: K };
    emit_ehdr(&mut s, &f.ehdr);
    let mut n = 0u64;
    if let Some(t) = f.section_headers() {
        for h in t.iter() {
            emit_shdr(&mut s, &h);
            n += 1;
        }
    }
    s.u(n);
    let mut n = 0u64;
    if let Some(t) = f.segments() {
        for p in t.iter() {
            emit_phdr(&mut s, &p);
            n += 1;
        }
    }
    s.u(n);
    s.h.get()
}
pub fn open_digest_stream(f: &Stream) -> u64 {
    let mut s = FoldSink { h: Fnv::new(), last: K };
    emit_ehdr(&mut s, &f.ehdr);
    for h in f.section_headers() {
        emit_shdr(&mut s, h);
    }
    s.u(f.section_headers().len() as u64);
    for p in f.segments() {
        emit_phdr(&mut s, p);
    }
    s.u(f.segments().len() as u64);
    s.h.get()
}
fn emit_ehdr<S: Sink>(s: &mut S, e: &elf::file::FileHeader<AnyEndian>) {
    s.u(match e.class {
        elf::file::Class::ELF32 => 32,
        elf::file::Class::ELF64 => 64,
    });
    s.u((e.endianness == AnyEndian::Little) as u64);
    s.u(e.version as u64);
    s.u(e.osabi as u64);
    s.u(e.abiversion as u64);
    s.u(e.e_type as u64);
    s.u(e.e_machine as u64);
    s.u(e.e_entry);
    s.u(e.e_phoff);
    s.u(e.e_shoff);
    s.u(e.e_flags as u64);
    s.u(e.e_ehsize as u64);
    s.u(e.e_phentsize as u64);
    s.u(e.e_phnum as u64);
    s.u(e.e_shentsize as u64);
    s.u(e.e_shnum as u64);
    s.u(e.e_shstrndx as u64);
}

/// Open a stream over `img` with the given script for the open call itself.
pub fn open_stream(bytes: &Arc<Vec<u8>>, script: &[(u32, Choice)]) -> (Result<Result<Stream, ()>, String>, Arc<Mutex<EnvState>>) {
    open_stream_at(bytes, script, 0)
}

/// the reader handed to open_stream may stand anywhere (a caller may have sniffed the magic first)
pub fn open_stream_at(bytes: &Arc<Vec<u8>>, script: &[(u32, Choice)], initial_pos: u64) -> (Result<Result<Stream, ()>, String>, Arc<Mutex<EnvState>>) {
    let (rd, st) = EnvReader::new(bytes.clone());
    st.lock().unwrap().script = script.to_vec();
    st.lock().unwrap().pos = initial_pos;
    let r = subject(|| Stream::open_stream(rd).map_err(|_| ()));
    (r, st)
}

pub fn begin_op(st: &Arc<Mutex<EnvState>>, script: &[(u32, Choice)]) {
    let mut g = st.lock().unwrap();
    g.script = script.to_vec();
    g.call = 0;
    g.applied = 0;
    g.log.clear();
    g.pending = None;
}

// ------------------------------------------------------------------ fingerprint
/// Canonical form of Debug text: children of every `{..}` group sorted (removes HashMap order).
pub fn canon_debug(text: &str) -> String {
    fn parse(chars: &[char], pos: &mut usize, close: Option<char>) -> String {
        // returns canonical text of the group body up to `close`
        let mut children: Vec<String> = Vec::new();
        let mut cur = String::new();
        while *pos < chars.len() {
            let c = chars[*pos];
            if Some(c) == close {
                break;
            }
            match c {
                '{' | '[' | '(' => {
                    let cl = match c {
                        '{' => '}',
                        '[' => ']',
                        _ => ')',
                    };
                    *pos += 1;
                    let inner = parse(chars, pos, Some(cl));
                    cur.push(c);
                    cur.push_str(&inner);
                    cur.push(cl);
                    *pos += 1; // closing
                }
                ',' => {
                    children.push(cur.trim().to_string());
                    cur = String::new();
                    *pos += 1;
                }
                _ => {
                    cur.push(c);
                    *pos += 1;
                }
            }
        }
        if !cur.trim().is_empty() {
            children.push(cur.trim().to_string());
        }
        if close == Some('}') {
            children.sort();
        }
        children.join(", ")
    }
    let chars: Vec<char> = text.chars().collect();
    let mut pos = 0;
    parse(&chars, &mut pos, None)
}

pub fn fingerprint(f: &Stream, st: &Arc<Mutex<EnvState>>) -> u128 {
    let text = outside(|| format!("{:?}", f));
    let canon = canon_debug(&text);
    let g = st.lock().unwrap();
    let mut a = Fnv::new();
    let mut b = Fnv(0x9ae16a3b2f90404f);
    for x in canon.as_bytes() {
        a.u8(*x);
        b.u8(x.rotate_left(3) ^ 0x5a);
    }
    a.u64(g.pos);
    b.u64(g.pos ^ 0xffff);
    a.u8(g.dead as u8);
    a.u8(g.eof_forever as u8);
    ((a.get() as u128) << 64) | b.get() as u128
}

// ------------------------------------------------------------------ designated ranges (reference model)
use refmodel::layout::{self as rl, decode, field_index, layout as rlayout, Enc, Kind};

#[derive(Clone, Debug, Default)]
pub struct RefHeaders {
    pub enc: Option<Enc>,
    pub shoff: u64,
    pub phoff: u64,
    pub shdrs: Vec<Vec<u64>>,
    pub phdrs: Vec<Vec<u64>>,
    pub shstrndx: u64,
    pub open_ranges: Vec<(u64, u64)>,
}

/// Reference walk of the header tables (Appendix B). None when the file cannot be opened
/// according to the reference rules (the check then only demands that reads stay inside the
/// ranges derivable so far, see `open_ranges`).
pub fn ref_headers(bytes: &[u8]) -> RefHeaders {
    let mut r = RefHeaders::default();
    // the ident first; the rest of the file header only once the class is known
    r.open_ranges.push((0, 16));
    if bytes.len() < 16 {
        return r;
    }
    let class = match bytes[4] {
        1 => rl::Class::C32,
        2 => rl::Class::C64,
        _ => return r,
    };
    let order = match bytes[5] {
        1 => rl::Order::Lsb,
        2 => rl::Order::Msb,
        _ => return r,
    };
    let enc = Enc { class, order };
    let ehl = rlayout(Kind::Ehdr, class);
    r.open_ranges.push((0, ehl.size as u64));
    if bytes.len() < ehl.size {
        return r;
    }
    r.enc = Some(enc);
    let eh = decode(Kind::Ehdr, enc, bytes, 0);
    let fi = |n: &str| eh[field_index(Kind::Ehdr, class, n)];
    let shl = rlayout(Kind::Shdr, class).size as u64;
    let phl = rlayout(Kind::Phdr, class).size as u64;
    r.shoff = fi("e_shoff");
    r.phoff = fi("e_phoff");
    let mut shnum = fi("e_shnum");
    let mut phnum = fi("e_phnum");
    r.shstrndx = fi("e_shstrndx");
    let shdr0 = if (r.shoff as u128 + shl as u128) <= bytes.len() as u128 { Some(decode(Kind::Shdr, enc, bytes, r.shoff as usize)) } else { None };
    if r.shoff != 0 {
        if shnum == 0 {
            r.open_ranges.push((r.shoff, shl));
            shnum = shdr0.as_ref().map(|h| h[5]).unwrap_or(0);
        }
        r.open_ranges.push((r.shoff, shnum.saturating_mul(shl)));
        if fi("e_shentsize") == shl {
            let mut i = 0u64;
            while i < shnum && (r.shoff as u128 + ((i + 1) as u128) * shl as u128) <= bytes.len() as u128 {
                r.shdrs.push(decode(Kind::Shdr, enc, bytes, (r.shoff + i * shl) as usize));
                i += 1;
            }
            if (i as u64) < shnum {
                r.shdrs.clear();
            }
        }
    }
    if r.phoff != 0 {
        if phnum == 0xffff {
            r.open_ranges.push((r.shoff, shl));
            phnum = shdr0.as_ref().map(|h| h[7]).unwrap_or(0);
        }
        r.open_ranges.push((r.phoff, phnum.saturating_mul(phl)));
        if fi("e_phentsize") == phl {
            let mut i = 0u64;
            while i < phnum && (r.phoff as u128 + ((i + 1) as u128) * phl as u128) <= bytes.len() as u128 {
                r.phdrs.push(decode(Kind::Phdr, enc, bytes, (r.phoff + i * phl) as usize));
                i += 1;
            }
            if (i as u64) < phnum {
                r.phdrs.clear();
            }
        }
    }
    if r.shstrndx == 0xffff {
        r.shstrndx = r.shdrs.first().map(|h| h[6]).unwrap_or(0);
    }
    r
}

fn sec_range(h: &[u64]) -> (u64, u64) {
    (h[4], h[5])
}

/// Byte ranges a query designates (reference model, DESIGN.md appendix B).
pub fn designated(rh: &RefHeaders, img: &Image, op: Op) -> Vec<(u64, u64)> {
    let mut v = Vec::new();
    let link_range = |h: &[u64], v: &mut Vec<(u64, u64)>| {
        if let Some(l) = rh.shdrs.get(h[6] as usize) {
            v.push(sec_range(l));
        }
    };
    match op.kind {
        OpKind::SectionData | OpKind::AsStrtab | OpKind::AsRels | OpKind::AsRelas | OpKind::AsNotes => {
            let h = &img.shdr_pool[op.arg as usize];
            // SHT_NOBITS occupies no file bytes: its data query designates nothing
            if !(op.kind == OpKind::SectionData && h.sh_type == rl::SHT_NOBITS) {
                v.push((h.sh_offset, h.sh_size));
            }
        }
        OpKind::SegNotes => {
            let p = &img.phdr_pool[op.arg as usize];
            v.push((p.p_offset, p.p_filesz));
        }
        OpKind::ShdrsWithStrtab | OpKind::ByName => {
            if let Some(h) = rh.shdrs.get(rh.shstrndx as usize) {
                v.push(sec_range(h));
            }
        }
        OpKind::SymbolTable | OpKind::DynSymbolTable => {
            let ty = if op.kind == OpKind::SymbolTable { rl::SHT_SYMTAB } else { rl::SHT_DYNSYM } as u64;
            if let Some(h) = rh.shdrs.iter().find(|h| h[1] == ty) {
                v.push(sec_range(h));
                link_range(h, &mut v);
            }
        }
        OpKind::Dynamic => {
            if !rh.shdrs.is_empty() {
                if let Some(h) = rh.shdrs.iter().find(|h| h[1] == rl::SHT_DYNAMIC as u64) {
                    v.push(sec_range(h));
                }
            } else if let Some(p) = rh.phdrs.iter().find(|p| p[0] == rl::PT_DYNAMIC as u64) {
                v.push((p[1], p[4]));
            }
        }
        OpKind::SymVer => {
            // the scan keeps the last section of each kind seen before all three have been found
            let (mut a, mut b, mut c): (Option<&Vec<u64>>, Option<&Vec<u64>>, Option<&Vec<u64>>) = (None, None, None);
            for h in &rh.shdrs {
                if h[1] == rl::SHT_GNU_VERSYM as u64 {
                    a = Some(h);
                } else if h[1] == rl::SHT_GNU_VERNEED as u64 {
                    b = Some(h);
                } else if h[1] == rl::SHT_GNU_VERDEF as u64 {
                    c = Some(h);
                }
                if a.is_some() && b.is_some() && c.is_some() {
                    break;
                }
            }
            if let Some(a) = a {
                v.push(sec_range(a));
                for x in [b, c].into_iter().flatten() {
                    v.push(sec_range(x));
                    link_range(x, &mut v);
                }
            }
        }
    }
    v
}

/// Every logged read must lie inside the union of `ranges`. Returns the first offending read.
pub fn reads_outside(log: &[IoEvent], ranges: &[(u64, u64)]) -> Option<(u64, usize)> {
    for e in log {
        if let IoEvent::Read { pos, got, .. } = e {
            if *got == 0 {
                continue;
            }
            let (a, b) = (*pos as u128, *pos as u128 + *got as u128);
            // every byte must be covered by some range (ranges may overlap / be adjacent)
            let mut cur = a;
            let mut progress = true;
            while cur < b && progress {
                progress = false;
                for (s, l) in ranges {
                    let (rs, re) = (*s as u128, *s as u128 + *l as u128);
                    if rs <= cur && cur < re {
                        cur = re.min(b);
                        progress = true;
                        break;
                    }
                }
            }
            if cur < b {
                return Some((*pos, *got));
            }
        }
    }
    None
}

pub fn alloc_bound(file_len: usize) -> u64 {
    8 * file_len as u64 + 16 * 1024
}

pub fn arm_alloc_limit(file_len: usize) {
    alloc::set_limit(alloc_bound(file_len));
    alloc::reset_stats();
}
