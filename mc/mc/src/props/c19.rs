//! C19 — exported ABI definitions agree with the ELF ABI reference (engine T: finite tables).
use crate::alloc::subject;
use crate::framework::*;
use crate::util::*;
use refmodel::layout::{layout, Class, Class as RClass, Kind};
use serde_json::{json, Value};
use std::collections::HashMap;
use std::mem::{offset_of, size_of};

include!(concat!(env!("OUT_DIR"), "/abi_consts.rs"));

pub struct RefTable {
    /// name -> (glibc, llvm)
    map: HashMap<String, (Option<i128>, Option<i128>)>,
    lower: HashMap<String, Vec<String>>,
    /// hand-transcribed values for names the two headers do not define (refs/abi_spec_supplement.json)
    supplement: HashMap<String, i128>,
}

pub fn load_ref() -> RefTable {
    let p = verif_dir().join("refs").join("abi_reference.json");
    let txt = std::fs::read_to_string(&p).unwrap_or_else(|e| panic!("read {}: {e}", p.display()));
    let v: Value = serde_json::from_str(&txt).expect("abi_reference.json");
    let mut map = HashMap::new();
    let mut lower: HashMap<String, Vec<String>> = HashMap::new();
    for (k, e) in v["constants"].as_object().expect("constants") {
        let g = e["glibc"].as_i64().map(|x| x as i128).or(e["glibc"].as_u64().map(|x| x as i128));
        let l = e["llvm"].as_i64().map(|x| x as i128).or(e["llvm"].as_u64().map(|x| x as i128));
        map.insert(k.clone(), (g, l));
        lower.entry(k.to_lowercase()).or_default().push(k.clone());
    }
    let p2 = verif_dir().join("refs").join("abi_spec_supplement.json");
    let txt2 = std::fs::read_to_string(&p2).unwrap_or_else(|e| panic!("read {}: {e}", p2.display()));
    let v2: Value = serde_json::from_str(&txt2).expect("abi_spec_supplement.json");
    let mut supplement = HashMap::new();
    for (k, e) in v2["constants"].as_object().expect("constants") {
        supplement.insert(k.clone(), e["value"].as_i64().map(|x| x as i128).or(e["value"].as_u64().map(|x| x as i128)).expect("value"));
    }
    RefTable { map, lower, supplement }
}

#[derive(Debug, PartialEq)]
pub enum RefVal {
    Neither,
    Inconsistent(i128, i128),
    Value(i128, &'static str),
}

impl RefTable {
    pub fn lookup(&self, name: &str) -> RefVal {
        let e = match self.map.get(name) {
            Some(e) => Some(*e),
            None => {
                // the references spell a few names in mixed case (SHT_GNU_verdef)
                match self.lower.get(&name.to_lowercase()) {
                    Some(c) if c.len() == 1 => self.map.get(&c[0]).copied(),
                    _ => None,
                }
            }
        };
        match e {
            None | Some((None, None)) => match self.supplement.get(name) {
                Some(v) => RefVal::Value(*v, "spec-supplement"),
                None => RefVal::Neither,
            },
            Some((Some(g), Some(l))) => {
                if norm(g) == norm(l) {
                    RefVal::Value(g, "glibc+llvm")
                } else {
                    RefVal::Inconsistent(g, l)
                }
            }
            Some((Some(g), None)) => RefVal::Value(g, "glibc"),
            Some((None, Some(l))) => RefVal::Value(l, "llvm"),
        }
    }
}

/// compare modulo 2^64 (the references write some i64 tags as unsigned literals)
fn norm(v: i128) -> u64 {
    v as u64
}

// ------------------------------------------------------------------ constants
struct Consts {
    r: RefTable,
}
impl Space for Consts {
    fn name(&self) -> String {
        "every exported integer constant of elf::abi vs the committed glibc/LLVM table and, for names neither header defines, the hand-transcribed specification supplement".into()
    }
    fn size(&self) -> u64 {
        ABI_CONSTS.len() as u64 + 2
    }
    fn describe(&self, idx: u64) -> Value {
        if (idx as usize) < ABI_CONSTS.len() {
            let (n, t, v) = ABI_CONSTS[idx as usize];
            json!({"constant": n, "type": t, "crate_value": v.to_string(), "reference": format!("{:?}", self.r.lookup(n))})
        } else {
            let n = ["ELFMAGIC", "ELF_NOTE_GNU"][(idx as usize) - ABI_CONSTS.len()];
            json!({"constant": n})
        }
    }
    fn run(&self, idx: u64, out: &mut Outcome) {
        out.transitions += 1;
        if (idx as usize) >= ABI_CONSTS.len() {
            let k = idx as usize - ABI_CONSTS.len();
            if k == 0 {
                if elf::abi::ELFMAGIC != [0x7f, b'E', b'L', b'F'] {
                    out.violate("const:ELFMAGIC", format!("{:?}", elf::abi::ELFMAGIC));
                }
            } else if elf::abi::ELF_NOTE_GNU != b"GNU\0" {
                out.violate("const:ELF_NOTE_GNU", format!("{:?}", elf::abi::ELF_NOTE_GNU));
            }
            out.count("fixed_bytes_constant");
            out.nontrivial(idx ^ 0xabcdef);
            return;
        }
        let (name, ty, val) = ABI_CONSTS[idx as usize];
        match self.r.lookup(name) {
            RefVal::Neither => out.count("unreferenced_by_glibc_and_llvm"),
            RefVal::Inconsistent(..) => out.count("references_disagree_excluded"),
            RefVal::Value(rv, src) => {
                out.count(&format!("checked_against_{src}"));
                let mut f = Fnv::new();
                f.bytes(name.as_bytes());
                f.u64(val as u64);
                out.nontrivial(f.get());
                // value must also fit its declared type exactly as the reference value does
                if norm(rv) != norm(val) && !(ty != "i64" && rv == val) {
                    out.violate(
                        format!("const:{name}"),
                        format!("elf::abi::{name} = {val} ({val:#x}) but the ABI reference ({src}) says {rv} ({rv:#x})"),
                    );
                }
            }
        }
    }
}

// ------------------------------------------------------------------ struct layouts
struct FieldRow {
    st: &'static str,
    field: &'static str,
    off: usize,
    size: usize,
}

macro_rules! fsz {
    ($t:ty, $f:ident) => {{
        fn sz<T, F>(_: fn(&T) -> &F) -> usize {
            size_of::<F>()
        }
        sz(|s: &$t| &s.$f)
    }};
}
macro_rules! rows {
    ($v:ident, $name:literal, $t:ty, [$($f:ident),*]) => {
        $( $v.push(FieldRow { st: $name, field: stringify!($f), off: offset_of!($t, $f), size: fsz!($t, $f) }); )*
    };
}

fn struct_rows() -> (Vec<FieldRow>, Vec<(&'static str, usize, Kind, RClass)>) {
    use elf::compression::*;
    use elf::dynamic::*;
    use elf::file::*;
    use elf::relocation::*;
    use elf::section::*;
    use elf::segment::*;
    use elf::symbol::*;
    let mut v = Vec::new();
    rows!(v, "Elf32_Ehdr", Elf32_Ehdr, [e_ident, e_type, e_machine, e_version, e_entry, e_phoff, e_shoff, e_flags, e_ehsize, e_phentsize, e_phnum, e_shentsize, e_shnum, e_shstrndx]);
    rows!(v, "Elf64_Ehdr", Elf64_Ehdr, [e_ident, e_type, e_machine, e_version, e_entry, e_phoff, e_shoff, e_flags, e_ehsize, e_phentsize, e_phnum, e_shentsize, e_shnum, e_shstrndx]);
    rows!(v, "Elf32_Shdr", Elf32_Shdr, [sh_name, sh_type, sh_flags, sh_addr, sh_offset, sh_size, sh_link, sh_info, sh_addralign, sh_entsize]);
    rows!(v, "Elf64_Shdr", Elf64_Shdr, [sh_name, sh_type, sh_flags, sh_addr, sh_offset, sh_size, sh_link, sh_info, sh_addralign, sh_entsize]);
    rows!(v, "Elf32_Phdr", Elf32_Phdr, [p_type, p_offset, p_vaddr, p_paddr, p_filesz, p_memsz, p_flags, p_align]);
    rows!(v, "Elf64_Phdr", Elf64_Phdr, [p_type, p_offset, p_vaddr, p_paddr, p_filesz, p_memsz, p_flags, p_align]);
    rows!(v, "Elf32_Sym", Elf32_Sym, [st_name, st_value, st_size, st_info, st_other, st_shndx]);
    rows!(v, "Elf64_Sym", Elf64_Sym, [st_name, st_value, st_size, st_info, st_other, st_shndx]);
    rows!(v, "Elf32_Rel", Elf32_Rel, [r_offset, r_info]);
    rows!(v, "Elf64_Rel", Elf64_Rel, [r_offset, r_info]);
    rows!(v, "Elf32_Rela", Elf32_Rela, [r_offset, r_info, r_addend]);
    rows!(v, "Elf64_Rela", Elf64_Rela, [r_offset, r_info, r_addend]);
    rows!(v, "Elf32_Dyn", Elf32_Dyn, [d_tag, d_un]);
    rows!(v, "Elf64_Dyn", Elf64_Dyn, [d_tag, d_un]);
    rows!(v, "Elf32_Chdr", Elf32_Chdr, [ch_type, ch_size, ch_addralign]);
    rows!(v, "Elf64_Chdr", Elf64_Chdr, [ch_type, ch_reserved, ch_size, ch_addralign]);
    let sizes = vec![
        ("Elf32_Ehdr", size_of::<Elf32_Ehdr>(), Kind::Ehdr, RClass::C32),
        ("Elf64_Ehdr", size_of::<Elf64_Ehdr>(), Kind::Ehdr, RClass::C64),
        ("Elf32_Shdr", size_of::<Elf32_Shdr>(), Kind::Shdr, RClass::C32),
        ("Elf64_Shdr", size_of::<Elf64_Shdr>(), Kind::Shdr, RClass::C64),
        ("Elf32_Phdr", size_of::<Elf32_Phdr>(), Kind::Phdr, RClass::C32),
        ("Elf64_Phdr", size_of::<Elf64_Phdr>(), Kind::Phdr, RClass::C64),
        ("Elf32_Sym", size_of::<Elf32_Sym>(), Kind::Sym, RClass::C32),
        ("Elf64_Sym", size_of::<Elf64_Sym>(), Kind::Sym, RClass::C64),
        ("Elf32_Rel", size_of::<Elf32_Rel>(), Kind::Rel, RClass::C32),
        ("Elf64_Rel", size_of::<Elf64_Rel>(), Kind::Rel, RClass::C64),
        ("Elf32_Rela", size_of::<Elf32_Rela>(), Kind::Rela, RClass::C32),
        ("Elf64_Rela", size_of::<Elf64_Rela>(), Kind::Rela, RClass::C64),
        ("Elf32_Dyn", size_of::<Elf32_Dyn>(), Kind::Dyn, RClass::C32),
        ("Elf64_Dyn", size_of::<Elf64_Dyn>(), Kind::Dyn, RClass::C64),
        ("Elf32_Chdr", size_of::<Elf32_Chdr>(), Kind::Chdr, RClass::C32),
        ("Elf64_Chdr", size_of::<Elf64_Chdr>(), Kind::Chdr, RClass::C64),
    ];
    (v, sizes)
}

struct Layouts;
impl Layouts {
    fn expected(st: &str, field: &str) -> Option<(usize, usize)> {
        let (_, sizes) = struct_rows();
        let (_, _, kind, class) = *sizes.iter().find(|s| s.0 == st)?;
        if field == "e_ident" {
            return Some((0, 16));
        }
        if field == "ch_reserved" {
            return Some((4, 4));
        }
        let l = layout(kind, class);
        l.fields.iter().find(|f| f.name == field).map(|f| (f.off, f.width))
    }
}
impl Space for Layouts {
    fn name(&self) -> String {
        "size_of and offset_of/size of every field of the 16 #[repr(C)] Elf32_*/Elf64_* structs vs the gABI layout tables".into()
    }
    fn size(&self) -> u64 {
        let (r, s) = struct_rows();
        (r.len() + s.len()) as u64
    }
    fn describe(&self, idx: u64) -> Value {
        let (r, s) = struct_rows();
        if (idx as usize) < r.len() {
            let x = &r[idx as usize];
            json!({"struct": x.st, "field": x.field, "offset": x.off, "size": x.size, "expected": format!("{:?}", Self::expected(x.st, x.field))})
        } else {
            let x = &s[idx as usize - r.len()];
            json!({"struct": x.0, "size_of": x.1, "expected": layout(x.2, x.3).size})
        }
    }
    fn run(&self, idx: u64, out: &mut Outcome) {
        out.transitions += 1;
        let (r, s) = struct_rows();
        out.nontrivial(idx.wrapping_mul(0x9e3779b97f4a7c15));
        if (idx as usize) < r.len() {
            let x = &r[idx as usize];
            match Self::expected(x.st, x.field) {
                None => out.violate(format!("layout:{}.{}", x.st, x.field), "field unknown to the ABI layout table"),
                Some((off, size)) => {
                    if off != x.off || size != x.size {
                        out.violate(
                            format!("layout:{}.{}", x.st, x.field),
                            format!("offset {} size {} but the ABI says offset {} size {}", x.off, x.size, off, size),
                        );
                    }
                }
            }
            out.count("field");
        } else {
            let x = &s[idx as usize - r.len()];
            let want = layout(x.2, x.3).size;
            if x.1 != want {
                out.violate(format!("layout:{}.size_of", x.0), format!("size_of = {} but the ABI size is {}", x.1, want));
            }
            out.count("struct_size");
        }
    }
}

// ------------------------------------------------------------------ to_str
#[derive(Clone, Copy)]
enum StrFn {
    U8(&'static str, fn(u8) -> Option<&'static str>, Option<fn(u8) -> String>, bool),
    U16(&'static str, fn(u16) -> Option<&'static str>, Option<fn(u16) -> String>, bool),
    U32(&'static str, fn(u32) -> Option<&'static str>, Option<fn(u32) -> String>, bool),
    I64(&'static str, fn(i64) -> Option<&'static str>, Option<fn(i64) -> String>, bool),
}

/// (name, to_str, to_string, symbolic): symbolic=false for the by-design human-label functions.
fn str_fns() -> Vec<StrFn> {
    use elf::to_str::*;
    vec![
        StrFn::U8("e_osabi_to_str", e_osabi_to_str, Some(e_osabi_to_string), true),
        StrFn::U8("st_symtype_to_str", st_symtype_to_str, Some(st_symtype_to_string), true),
        StrFn::U8("st_bind_to_str", st_bind_to_str, Some(st_bind_to_string), true),
        StrFn::U8("st_vis_to_str", st_vis_to_str, Some(st_vis_to_string), true),
        StrFn::U16("e_type_to_str", e_type_to_str, Some(e_type_to_string), true),
        StrFn::U16("e_machine_to_str", e_machine_to_str, Some(e_machine_to_string), true),
        StrFn::U16("e_type_to_human_str", e_type_to_human_str, None, false),
        StrFn::U16("e_machine_to_human_str", e_machine_to_human_str, None, false),
        StrFn::U32("sh_type_to_str", sh_type_to_str, Some(sh_type_to_string), true),
        StrFn::U32("p_type_to_str", p_type_to_str, Some(p_type_to_string), true),
        StrFn::U32("ch_type_to_str", ch_type_to_str, None, true),
        StrFn::U32("note_abi_tag_os_to_str", note_abi_tag_os_to_str, None, false),
        StrFn::I64("d_tag_to_str", d_tag_to_str, None, true),
    ]
}

fn const_index() -> HashMap<&'static str, i128> {
    ABI_CONSTS.iter().map(|(n, _, v)| (*n, *v)).collect()
}
fn values_with_constants() -> std::collections::HashSet<u64> {
    ABI_CONSTS.iter().map(|(_, _, v)| *v as u64).collect()
}

fn check_str(
    fname: &str,
    symbolic: bool,
    arg: i128,
    s: Result<Option<&'static str>, String>,
    string: Option<Result<String, String>>,
    consts: &HashMap<&'static str, i128>,
    anyval: &std::collections::HashSet<u64>,
    out: &mut Outcome,
) -> bool {
    out.transitions += 1;
    let s = match s {
        Err(p) => {
            out.violate(format!("panic:{fname}"), format!("arg {arg}: {p}"));
            return false;
        }
        Ok(s) => s,
    };
    if let Some(name) = s {
        if symbolic {
            match consts.get(name) {
                None => out.violate(
                    format!("to_str:{fname}({arg})"),
                    format!("{fname}({arg}) = {name:?} which is not the identifier of an exported constant"),
                ),
                Some(v) => {
                    if *v as u64 != arg as u64 {
                        out.violate(
                            format!("to_str:{fname}({arg})"),
                            format!("{fname}({arg}) = {name:?} but elf::abi::{name} = {v}"),
                        );
                    }
                }
            }
        } else if !anyval.contains(&(arg as u64)) {
            out.violate(
                format!("to_str:{fname}({arg})"),
                format!("{fname}({arg}) = {name:?} but no exported constant has that value"),
            );
        }
    }
    if let Some(st) = string {
        out.transitions += 1;
        match st {
            Err(p) => out.violate(format!("panic:{fname}[to_string]"), format!("arg {arg}: {p}")),
            Ok(text) => match s {
                Some(name) => {
                    if text != name {
                        out.violate(
                            format!("to_string:{fname}({arg})"),
                            format!("to_string gives {text:?} but to_str gives {name:?}"),
                        );
                    }
                }
                None => {
                    let dec = format!("{}", arg);
                    let hex = format!("{:x}", arg as u64);
                    let hex32 = format!("{:x}", arg as u64 & 0xffff_ffff);
                    let lower = text.to_lowercase();
                    // the number must appear as a token of its own (decimal, hex or 0x-hex)
                    let has = lower.split(|c: char| !c.is_ascii_alphanumeric() && c != '-').any(|t| {
                        t == dec || t == hex || t == hex32 || t == format!("0x{hex}") || t == format!("0x{hex32}")
                    });
                    if !has {
                        out.violate(
                            format!("to_string:{fname}({arg})"),
                            format!("fallback text {text:?} does not contain the number"),
                        );
                    }
                }
            },
        }
    }
    s.is_some()
}

fn v32_alphabet() -> Vec<u64> {
    vec![
        0, 1, 2, 3, 0x7f, 0x80, 0xfe, 0xff, 0x100, 0x7fff, 0x8000, 0xfeff, 0xff00, 0xff01, 0xfffe, 0xffff, 0x10000,
        0x10001, 1 << 20, 1 << 24, (1 << 31) - 1, 1 << 31, (1 << 31) + 1, (1u64 << 32) - 2, (1u64 << 32) - 1,
    ]
}
fn v64_extra() -> Vec<u64> {
    vec![
        1 << 32, (1 << 32) + 1, 1 << 40, 1 << 58, 1 << 59, 1 << 60, (1u64 << 63) - 1, 1 << 63, (1u64 << 63) + 1,
        u64::MAX - 63, u64::MAX - 1, u64::MAX,
    ]
}

/// domain of a function in the quick/alphabet space
fn domain(f: &StrFn) -> Vec<i128> {
    match f {
        StrFn::U8(..) => (0..256).collect(),
        StrFn::U16(..) => (0..65536).collect(),
        StrFn::U32(..) => {
            let mut v: Vec<i128> = v32_alphabet().into_iter().map(|x| x as i128).collect();
            for (_, _, c) in ABI_CONSTS {
                if *c >= 0 && *c <= u32::MAX as i128 {
                    for d in [-1i128, 0, 1] {
                        let x = *c + d;
                        if x >= 0 && x <= u32::MAX as i128 {
                            v.push(x);
                        }
                    }
                }
            }
            v.sort();
            v.dedup();
            v
        }
        StrFn::I64(..) => {
            let mut v: Vec<i128> = v32_alphabet().into_iter().map(|x| x as i128).collect();
            v.extend(v64_extra().into_iter().map(|x| x as i64 as i128));
            for (_, _, c) in ABI_CONSTS {
                for d in [-1i128, 0, 1] {
                    let x = *c + d;
                    if x >= i64::MIN as i128 && x <= i64::MAX as i128 {
                        v.push(x);
                    }
                    // the same bit pattern read as a signed 64-bit tag
                    if x >= 0 && x <= u64::MAX as i128 {
                        v.push(x as u64 as i64 as i128);
                    }
                    // the same low word under other high words (a 64-bit tag is not its low half)
                    if d == 0 && *c >= 0 && *c <= u32::MAX as i128 {
                        for hi in [1u64 << 32, 1 << 40, 1 << 63, 0xffff_ffff_0000_0000] {
                            v.push(((*c as u64) | hi) as i64 as i128);
                        }
                    }
                }
            }
            v.sort();
            v.dedup();
            v
        }
    }
}

fn call(f: &StrFn, arg: i128) -> (Result<Option<&'static str>, String>, Option<Result<String, String>>) {
    match f {
        StrFn::U8(_, g, h, _) => (subject(|| g(arg as u8)), h.map(|h| subject(|| h(arg as u8)))),
        StrFn::U16(_, g, h, _) => (subject(|| g(arg as u16)), h.map(|h| subject(|| h(arg as u16)))),
        StrFn::U32(_, g, h, _) => (subject(|| g(arg as u32)), h.map(|h| subject(|| h(arg as u32)))),
        StrFn::I64(_, g, h, _) => (subject(|| g(arg as i64)), h.map(|h| subject(|| h(arg as i64)))),
    }
}
fn meta(f: &StrFn) -> (&'static str, bool) {
    match f {
        StrFn::U8(n, _, _, s) | StrFn::U16(n, _, _, s) | StrFn::U32(n, _, _, s) | StrFn::I64(n, _, _, s) => (*n, *s),
    }
}

/// One case per (function, block of 256 domain values).
struct ToStr {
    fns: Vec<StrFn>,
    domains: Vec<Vec<i128>>,
    blocks: Vec<(usize, usize)>,
}
impl ToStr {
    fn new() -> ToStr {
        let fns = str_fns();
        let domains: Vec<Vec<i128>> = fns.iter().map(domain).collect();
        let mut blocks = Vec::new();
        for (i, d) in domains.iter().enumerate() {
            let mut a = 0;
            while a < d.len() {
                blocks.push((i, a));
                a += 256;
            }
        }
        ToStr { fns, domains, blocks }
    }
}
impl Space for ToStr {
    fn name(&self) -> String {
        "every *_to_str (+ *_to_string) over its domain: u8/u16 exhaustive; u32/i64 constants +-1 and boundary values (256 values per case); p_flags_to_string totality and number-carrying fallback".into()
    }
    fn size(&self) -> u64 {
        self.blocks.len() as u64 + 1
    }
    fn describe(&self, idx: u64) -> Value {
        if idx as usize == self.blocks.len() {
            return json!({"function": "p_flags_to_string", "domain": "boundary alphabet + 0..=65536 + 2^b-1, 2^b, 2^b+1, 2^b|5"});
        }
        let (fi, a) = self.blocks[idx as usize];
        let d = &self.domains[fi];
        let b = (a + 256).min(d.len());
        json!({"function": meta(&self.fns[fi]).0, "args": format!("{} values from {} to {}", b - a, d[a], d[b - 1])})
    }
    fn run(&self, idx: u64, out: &mut Outcome) {
        if idx as usize == self.blocks.len() {
            let mut vals: Vec<i128> = v32_alphabet().into_iter().map(|v| v as i128).collect();
            vals.extend(0..=0x1_0000);
            vals.extend((0..32).flat_map(|b| [(1i128 << b) - 1, 1i128 << b, (1i128 << b) + 1, (1i128 << b) | 5]));
            let named = (elf::abi::PF_R | elf::abi::PF_W | elf::abi::PF_X) as i128;
            for v in vals {
                if !(0..=u32::MAX as i128).contains(&v) {
                    continue;
                }
                out.transitions += 1;
                match subject(|| elf::to_str::p_flags_to_string(v as u32)) {
                    Err(p) => out.violate("panic:p_flags_to_string", format!("arg {v}: {p}")),
                    Ok(s) => {
                        if s.is_empty() {
                            out.violate("to_string:p_flags_to_string", format!("empty text for {v}"));
                        }
                        // a value with bits no exported PF_R/PF_W/PF_X names has no symbolic form: the
                        // text must carry the number (the whole value or its unnamed bits, decimal or hex)
                        let extra = v & !named;
                        if extra != 0 {
                            let lower = s.to_lowercase();
                            let ok = [v, extra].iter().any(|n| lower.contains(&format!("{n}")) || lower.contains(&format!("{n:x}")));
                            if !ok {
                                out.violate("to_string:p_flags_to_string", format!("p_flags {v:#x} has bits outside PF_R|PF_W|PF_X but its text {s:?} does not contain the number"));
                            }
                        }
                    }
                }
            }
            out.nontrivial(0x70f1a6);
            return;
        }
        let consts = const_index();
        let anyval = values_with_constants();
        let (fi, a) = self.blocks[idx as usize];
        let f = self.fns[fi];
        let (fname, symbolic) = meta(&f);
        let d = &self.domains[fi];
        let b = (a + 256).min(d.len());
        let mut dig = Fnv::new();
        let mut some = 0;
        for arg in &d[a..b] {
            let (s, st) = call(&f, *arg);
            if let Ok(Some(x)) = &s {
                dig.bytes(x.as_bytes());
            }
            if check_str(fname, symbolic, *arg, s, st, &consts, &anyval, out) {
                some += 1;
            }
        }
        out.count_n(&format!("{fname}:Some"), some);
        out.count_n(&format!("{fname}:None"), (b - a) as u64 - some);
        if some > 0 {
            dig.u64(idx);
            out.nontrivial(dig.get());
        }
    }
}

/// u32 functions over all 2^32 values, d_tag over the whole i32 range; a case = 2^16 values.
struct ToStrFull {
    fns: Vec<StrFn>,
}
impl Space for ToStrFull {
    fn name(&self) -> String {
        "u32 *_to_str over all 2^32 values and d_tag_to_str over the whole i32 range (65536 values per case)".into()
    }
    fn size(&self) -> u64 {
        self.fns.len() as u64 * 65536
    }
    fn describe(&self, idx: u64) -> Value {
        let fi = (idx / 65536) as usize;
        json!({"function": meta(&self.fns[fi]).0, "block": format!("{:#x}0000..", idx % 65536)})
    }
    fn run(&self, idx: u64, out: &mut Outcome) {
        let consts = const_index();
        let anyval = values_with_constants();
        let fi = (idx / 65536) as usize;
        let f = self.fns[fi];
        let (fname, symbolic) = meta(&f);
        let hi = idx % 65536;
        let mut dig = Fnv::new();
        let mut some = 0u64;
        for lo in 0..65536u64 {
            let raw = (hi << 16) | lo;
            let arg: i128 = match f {
                StrFn::I64(..) => raw as u32 as i32 as i128,
                _ => raw as i128,
            };
            // to_string is exercised on the alphabet space; here only to_str (2^32 Strings would dominate)
            let (s, _) = match f {
                StrFn::U32(_, g, _, _) => (subject(|| g(arg as u32)), None::<()>),
                StrFn::I64(_, g, _, _) => (subject(|| g(arg as i64)), None),
                _ => unreachable!(),
            };
            if let Ok(Some(x)) = &s {
                dig.bytes(x.as_bytes());
            }
            if check_str(fname, symbolic, arg, s, None, &consts, &anyval, out) {
                some += 1;
            }
        }
        out.count_n(&format!("{fname}:Some"), some);
        if some > 0 {
            dig.u64(idx);
            out.nontrivial(dig.get());
        }
    }
}

pub fn build(tier: Tier) -> CheckDef {
    let mut spaces: Vec<Box<dyn Space>> =
        vec![Box::new(Consts { r: load_ref() }), Box::new(Layouts), Box::new(ToStr::new())];
    {
        // both tiers: the whole 32-bit domain costs about 12 s on 16 cores, and a name for a single
        // value nobody exports cannot be found any other way
        let _ = tier;
        let fns: Vec<StrFn> = str_fns().into_iter().filter(|f| matches!(f, StrFn::U32(..) | StrFn::I64(..))).collect();
        spaces.push(Box::new(ToStrFull { fns }));
    }
    CheckDef {
        prop: "C19",
        level: "exploration",
        rule: "complete enumeration of finite tables: every exported integer constant (value taken from the compiled crate) vs refs/abi_reference.json (glibc elf.h + LLVM-14 BinaryFormat; names the two define inconsistently are excluded and counted); every field of the 16 repr(C) structs; every to_str function over its domain. distinct non-trivial = distinct (name,value) pairs actually compared / blocks with at least one Some".into(),
        assumptions: vec![
            "refs/abi_reference.json (generated by refs/gen_abi_reference.py from /usr/include/elf.h and LLVM-14 headers) is the ABI reference".into(),
            "*_human_str, note_abi_tag_os_to_str and p_flags_to_string return human labels by design; they are checked for totality and for Some only on values some exported constant has".into(),
        ],
        spaces,
        abort_is_violation: false,
        hang_is_violation: false,
        exhaustive: true,
        bounds: json!({"u32_i64_domains": "all 2^32 values / whole i32 range (to_str); constants+-1 and boundary alphabet (to_string)"}),
    }
}
