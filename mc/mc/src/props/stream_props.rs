//! Engine S: explicit-state exploration (stateright) of the real `ElfStream` over a scripted
//! environment, plus the stream-parser oracles for engine L. Serves C07, C08, C17 (and the stream
//! half of C18).
use super::slice_oracles::panic_site;
use crate::alloc::{self, subject};
use crate::framework::*;
use crate::lattice::{Oracle, PrefixOracle, Prefixes};
use crate::skeleton::*;
use crate::stream::*;
use elf::abi;
use elf::endian::AnyEndian;
use elf::section::SectionHeader;
use elf::segment::ProgramHeader;
use elf::ElfBytes;
use refmodel::image::*;
use refmodel::layout::*;
use serde_json::{json, Value};
use stateright::{Checker, Model, Property};
use std::hash::{Hash, Hasher};
use std::sync::atomic::{AtomicU64, Ordering};
use std::sync::Arc;

#[derive(Clone, Copy, PartialEq, Eq, Debug)]
pub enum Which {
    C07,
    C08,
    C17,
}

// ------------------------------------------------------------------ images
fn pool_from_bytes(bytes: &[u8]) -> (Vec<SectionHeader>, Vec<ProgramHeader>) {
    match ElfBytes::<AnyEndian>::minimal_parse(bytes) {
        Ok(f) => (
            f.section_headers().map(|t| t.iter().collect()).unwrap_or_default(),
            f.segments().map(|t| t.iter().collect()).unwrap_or_default(),
        ),
        Err(_) => (Vec::new(), Vec::new()),
    }
}

fn crafted(base: &SectionHeader, flen: u64) -> Vec<SectionHeader> {
    let a = base.sh_offset;
    let n = base.sh_size;
    let mk = |off: u64, size: u64, ty: u32, flags: u64, align: u64| SectionHeader {
        sh_name: 0,
        sh_type: ty,
        sh_flags: flags,
        sh_addr: 0,
        sh_offset: off,
        sh_size: size,
        sh_link: 0,
        sh_info: 0,
        sh_addralign: align,
        sh_entsize: 0,
    };
    vec![
        mk(a, n / 2, abi::SHT_PROGBITS, 0, 1),          // shares the start
        mk(a + n / 2, n - n / 2, abi::SHT_PROGBITS, 0, 1), // starts exactly where the previous one ends
        mk(a + 2, n - 2, abi::SHT_PROGBITS, 0, 1),      // shares the end
        mk(a, n, abi::SHT_STRTAB, 0, 1),                // identical range, other type
        mk(a, n, abi::SHT_NOTE, 0, 4),                  // identical range, as notes
        mk(a, 0, abi::SHT_PROGBITS, 0, 1),              // empty
        mk(flen - 1, 1, abi::SHT_PROGBITS, 0, 1),       // touches EOF
        mk(flen, 0, abi::SHT_PROGBITS, 0, 1),           // empty at EOF
        mk(flen, 1, abi::SHT_PROGBITS, 0, 1),           // one past EOF
        mk(flen + 1, 0, abi::SHT_PROGBITS, 0, 1),       // empty, strictly past EOF
        mk(flen + 9, 0, abi::SHT_NOTE, 0, 4),           // empty, strictly past EOF, typed view
        mk(flen - 1, 2, abi::SHT_STRTAB, 0, 1),         // starts inside, ends outside
        mk(a, n, abi::SHT_NOBITS, 0, 1),                // NOBITS over real bytes
        mk(a, n, abi::SHT_NOBITS, abi::SHF_COMPRESSED as u64, 1), // NOBITS that also claims to be compressed
        mk(a, u64::MAX, abi::SHT_PROGBITS, 0, 1),       // overflowing size
        mk(a, n, abi::SHT_PROGBITS, abi::SHF_COMPRESSED as u64, 1), // compressed (scoped out of C07)
    ]
}

fn std_ops(shdrs: &[SectionHeader], phdrs: &[ProgramHeader], names: &[String], per_section_cap: usize) -> Vec<Op> {
    let mut ops = Vec::new();
    for (i, h) in shdrs.iter().enumerate().take(per_section_cap) {
        ops.push(Op { kind: OpKind::SectionData, arg: i as u16 });
        let k = match h.sh_type {
            abi::SHT_STRTAB => Some(OpKind::AsStrtab),
            abi::SHT_REL => Some(OpKind::AsRels),
            abi::SHT_RELA => Some(OpKind::AsRelas),
            abi::SHT_NOTE => Some(OpKind::AsNotes),
            _ => None,
        };
        if let Some(k) = k {
            ops.push(Op { kind: k, arg: i as u16 });
        }
        // one mismatching typed view per section
        ops.push(Op { kind: if h.sh_type == abi::SHT_STRTAB { OpKind::AsNotes } else { OpKind::AsStrtab }, arg: i as u16 });
    }
    for (j, _) in phdrs.iter().enumerate().take(per_section_cap) {
        ops.push(Op { kind: OpKind::SegNotes, arg: j as u16 });
    }
    for k in [OpKind::SymbolTable, OpKind::DynSymbolTable, OpKind::Dynamic, OpKind::SymVer, OpKind::ShdrsWithStrtab] {
        ops.push(Op { kind: k, arg: 0 });
    }
    for (i, _) in names.iter().enumerate() {
        ops.push(Op { kind: OpKind::ByName, arg: i as u16 });
    }
    ops
}

pub fn image_from_bytes(name: &str, bytes: Vec<u8>, craft_on: Option<usize>, names: &[&str], cap: usize) -> Image {
    let (mut shdrs, phdrs) = pool_from_bytes(&bytes);
    if let Some(i) = craft_on {
        if let Some(base) = shdrs.get(i).copied() {
            shdrs.extend(crafted(&base, bytes.len() as u64));
        }
    }
    let names: Vec<String> = names.iter().map(|s| s.to_string()).collect();
    let ops = std_ops(&shdrs, &phdrs, &names, cap);
    Image { name: name.to_string(), bytes: Arc::new(bytes), shdr_pool: shdrs, phdr_pool: phdrs, names, ops }
}

/// Small crafted images whose reachable cache-state graph is explored to a fixpoint.
pub fn s_small(enc: Enc) -> Image {
    s_small_impl(enc, true)
}
/// the quick-tier core of `s_small`: fewer sections and crafted headers (9 distinct ranges)
pub fn s_core(enc: Enc) -> Image {
    s_small_impl(enc, false)
}
fn s_small_impl(enc: Enc, full: bool) -> Image {
    let mut spec = Spec::new(enc, TableOrder::TablesFirst);
    let symsz = layout(Kind::Sym, enc.class).size as u64;
    let names: Vec<Vec<u8>> = vec![b"".to_vec(), b"main".to_vec(), b"x".to_vec()];
    let (strtab, offs) = refmodel::hashes::build_strtab(&names);
    let symtab = refmodel::hashes::build_symtab(enc, &offs);
    let note = refmodel::notes::build_notes(
        enc.order,
        4,
        &[refmodel::notes::NoteSpec { n_type: 3, name: b"GNU\0".to_vec(), desc: vec![1, 2, 3, 4, 5] }, refmodel::notes::NoteSpec { n_type: 7, name: b"ab\0".to_vec(), desc: vec![9] }],
        0,
    );
    let mut rela = Vec::new();
    rela.extend_from_slice(&encode(Kind::Rela, enc, &[0x10, 0x0101, 0xffff_ffff_ffff_fff0], 0));
    let mut dynamic = Vec::new();
    dynamic.extend_from_slice(&encode(Kind::Dyn, enc, &[1, 1], 0));
    dynamic.extend_from_slice(&encode(Kind::Dyn, enc, &[0, 0], 0));
    spec.secs = vec![
        Sec::new(b".data", SHT_PROGBITS, b"ab\0cd\0efgh\0\0\0\x01".to_vec()),
        Sec::new(b".symtab", SHT_SYMTAB, symtab).link(3).entsize(symsz),
        Sec::new(b".strtab", SHT_STRTAB, strtab),
        Sec::new(b".note", SHT_NOTE, note).addralign(4),
        Sec::new(b".rela", SHT_RELA, rela).link(2).entsize(layout(Kind::Rela, enc.class).size as u64),
        Sec::new(b".dynamic", SHT_DYNAMIC, dynamic).link(3).entsize(layout(Kind::Dyn, enc.class).size as u64),
    ];
    spec.segs = vec![
        Seg { p_type: PT_NOTE, flags: 4, vaddr: 0, paddr: 0, align: 4, memsz_extra: 3, target: SegTarget::Section(4) },
        Seg { p_type: PT_LOAD, flags: 5, vaddr: 0, paddr: 0, align: 16, memsz_extra: 0, target: SegTarget::Section(1) },
    ];
    if !full {
        spec.secs.truncate(4);
    }
    let b = build(&spec);
    let mut img = image_from_bytes(&format!("{}/{}", if full { "s-small" } else { "s-core" }, enc.name()), b.bytes, Some(1), &[".note", ".absent", ".no", ""], 64);
    if !full {
        // keep the crafted headers that create distinct cache keys: shared start, shared end, same range
        // under other types, empty, EOF-touching, beyond EOF, compressed
        let nfile = 6; // null + 4 sections + .shstrtab
        let keep = [0usize, 1, 2, 3, 4, 5, 6, 8, 9, 12, 15];
        let crafted: Vec<SectionHeader> = keep.iter().map(|k| img.shdr_pool[nfile + k]).collect();
        img.shdr_pool.truncate(nfile);
        img.shdr_pool.extend(crafted);
        img.ops = std_ops(&img.shdr_pool, &img.phdr_pool, &img.names, 64);
    }
    img
}

pub fn s_symver(enc: Enc) -> Image {
    let (spec, _) = tiny_spec(enc, TableOrder::Linker);
    // keep only the dynamic-linking sections; indexes change, so rebuild links by name
    let keep = [".dynsym", ".dynstr", ".gnu.version", ".gnu.version_r", ".gnu.version_d", ".verstr", ".dynamic"];
    let mut secs: Vec<Sec> = spec.secs.iter().filter(|s| keep.contains(&String::from_utf8_lossy(&s.name).as_ref())).cloned().collect();
    let pos = |n: &str, secs: &Vec<Sec>| secs.iter().position(|s| s.name == n.as_bytes()).unwrap() as u32 + 1;
    let (dynsym, dynstr, verstr) = (pos(".dynsym", &secs), pos(".dynstr", &secs), pos(".verstr", &secs));
    for s in secs.iter_mut() {
        s.deep.clear();
        match s.name.as_slice() {
            b".dynsym" | b".gnu.version_r" | b".dynamic" => s.link = dynstr,
            b".gnu.version" => s.link = dynsym,
            b".gnu.version_d" => s.link = verstr,
            _ => {}
        }
    }
    let mut sp = Spec::new(enc, TableOrder::TablesFirst);
    sp.secs = secs;
    let b = build(&sp);
    image_from_bytes(&format!("s-symver/{}", enc.name()), b.bytes, None, &[".dynsym", ".gnu"], 64)
}

/// An object the gABI frowns upon but on which both parsers must still agree (and, under faults,
/// fail cleanly): two SHT_SYMTAB sections with different contents, a PT_DYNAMIC segment that covers
/// only the first entry of .dynamic, an empty .dynsym that starts at the same file offset as its
/// string table, and an empty .gnu.version_d at the offset of .gnu.version_r.
pub fn s_odd(enc: Enc) -> Image {
    let symsz = layout(Kind::Sym, enc.class).size as u64;
    let dynsz = layout(Kind::Dyn, enc.class).size as u64;
    let mk = |names: &[&[u8]]| {
        let names: Vec<Vec<u8>> = names.iter().map(|n| n.to_vec()).collect();
        let (strtab, offs) = refmodel::hashes::build_strtab(&names);
        (refmodel::hashes::build_symtab(enc, &offs), strtab)
    };
    let (sym_a, str_a) = mk(&[b"", b"main", b"x"]);
    let (sym_b, str_b) = mk(&[b"", b"other_table_symbol"]);
    let mut dynamic = Vec::new();
    dynamic.extend_from_slice(&encode(Kind::Dyn, enc, &[1, 1], 0));
    dynamic.extend_from_slice(&encode(Kind::Dyn, enc, &[14, 7], 0));
    dynamic.extend_from_slice(&encode(Kind::Dyn, enc, &[0, 0], 0));
    let mut strs = refmodel::symver::StrTab::new();
    let need = refmodel::symver::Need { file: b"libq.so".to_vec(), auxes: vec![refmodel::symver::Aux { name: b"Q_1".to_vec(), hash: 0x1234, flags: 0, other: 2 }] };
    let verneed = refmodel::symver::build_verneed(enc, &[need], refmodel::symver::VerLayout::Contiguous, &mut strs);
    let versym = refmodel::symver::build_versym(enc.order, &[0, 2]);
    let make = |dynstr_off: u64, verneed_off: u64| {
        let mut spec = Spec::new(enc, TableOrder::TablesFirst);
        spec.secs = vec![
            Sec::new(b".symtab", SHT_SYMTAB, sym_a.clone()).link(2).entsize(symsz),
            Sec::new(b".strtab", SHT_STRTAB, str_a.clone()),
            Sec::new(b".symtab.2", SHT_SYMTAB, sym_b.clone()).link(4).entsize(symsz),
            Sec::new(b".strtab.2", SHT_STRTAB, str_b.clone()),
            Sec::new(b".dynamic", SHT_DYNAMIC, dynamic.clone()).link(7).entsize(dynsz),
            Sec::new(b".dynsym", SHT_DYNSYM, Vec::new()).link(7).entsize(symsz).place(Place::Claim { offset: dynstr_off, size: 0 }),
            Sec::new(b".dynstr", SHT_STRTAB, strs.bytes.clone()),
            Sec::new(b".gnu.version", SHT_GNU_VERSYM, versym.clone()).link(6).entsize(2),
            Sec::new(b".gnu.version_r", SHT_GNU_VERNEED, verneed.clone()).link(7).info(1),
            Sec::new(b".gnu.version_d", SHT_GNU_VERDEF, Vec::new()).link(7).info(0).place(Place::Claim { offset: verneed_off, size: 0 }),
        ];
        spec.segs = vec![Seg { p_type: PT_DYNAMIC, flags: 6, vaddr: 0, paddr: 0, align: 8, memsz_extra: 0, target: SegTarget::Range { offset: 0, filesz: dynsz } }];
        spec
    };
    let b0 = build(&make(0, 0));
    let (dynstr_off, _) = b0.sec_range(7);
    let (verneed_off, _) = b0.sec_range(9);
    let (dynamic_off, _) = b0.sec_range(5);
    let mut spec = make(dynstr_off, verneed_off);
    spec.segs[0].target = SegTarget::Range { offset: dynamic_off, filesz: dynsz };
    let b = build(&spec);
    assert_eq!(b.sec_range(7).0, dynstr_off, "layout must not move when the claims are filled in");
    image_from_bytes(&format!("s-odd/{}", enc.name()), b.bytes, None, &[".dynsym", ".symtab.2"], 64)
}

/// `s_core` as a core file (e_type = ET_CORE): file-type specific leniency must not exist
pub fn s_core_as_corefile(enc: Enc) -> Image {
    let mut img = s_core(enc);
    let mut bytes = (*img.bytes).clone();
    put(&mut bytes, 16, 2, enc.order, 4);
    img.bytes = Arc::new(bytes);
    img.name = format!("s-core(ET_CORE)/{}", enc.name());
    img
}

pub fn s_phdrs(enc: Enc) -> Image {
    let sk = small_shapes().into_iter().find(|s| s.name == format!("phdrs-only/{}", enc.name())).unwrap();
    let mut img = image_from_bytes(&format!("s-phdrs-only/{}", enc.name()), sk.bytes, None, &[".x"], 64);
    // caller-supplied program headers: shared start / shared end / EOF geometry on the PT_NOTE range
    if let Some(p) = img.phdr_pool.iter().find(|p| p.p_type == abi::PT_NOTE).copied() {
        let l = img.bytes.len() as u64;
        for (off, sz, al) in [(p.p_offset, p.p_filesz - 4, 4u64), (p.p_offset + 4, p.p_filesz - 4, 4), (l - 1, 1, 1), (l, 0, 0), (l, 1, 4), (p.p_offset, p.p_filesz, 8)] {
            img.phdr_pool.push(ProgramHeader { p_type: abi::PT_NOTE, p_offset: off, p_vaddr: 0, p_paddr: 0, p_filesz: sz, p_memsz: 0, p_flags: 4, p_align: al });
        }
    }
    img.ops = std_ops(&img.shdr_pool, &img.phdr_pool, &img.names, 64);
    img
}

// ------------------------------------------------------------------ model
#[derive(Clone, Debug, PartialEq, Eq, Hash)]
pub enum ActKind {
    /// open_stream on a reader standing at the given position
    Open(u64),
    Op(Op),
}
#[derive(Clone, Debug, PartialEq, Eq, Hash)]
pub struct Act {
    pub kind: ActKind,
    pub script: Vec<(u32, Choice)>,
}

#[derive(Clone, Debug)]
pub struct SState {
    pub hist: Vec<Act>,
    pub fp: u128,
    /// 0 = not opened yet, 1 = open, 2 = open failed (terminal)
    pub phase: u8,
    pub bad: Option<String>,
    /// a fault has been injected somewhere on the path (C17: later answers are checked against truth)
    pub faulted: bool,
}
impl PartialEq for SState {
    fn eq(&self, o: &Self) -> bool {
        self.fp == o.fp && self.phase == o.phase && self.bad.is_some() == o.bad.is_some() && self.faulted == o.faulted
    }
}
impl Eq for SState {}
impl Hash for SState {
    fn hash<H: Hasher>(&self, h: &mut H) {
        self.fp.hash(h);
        self.phase.hash(h);
        self.bad.is_some().hash(h);
        self.faulted.hash(h);
    }
}

pub struct SModel {
    pub img: Image,
    pub which: Which,
    /// deviation budget per transition
    pub dev: u32,
    pub rh: RefHeaders,
    pub transitions: AtomicU64,
    pub executions: AtomicU64,
    pub applied_dev: AtomicU64,
    pub ok_results: AtomicU64,
    pub slice_open_digest: Option<u64>,
    pub empty_shdr_table: bool,
    /// fingerprints of the distinct open-stream states reached (evidence: distinct non-trivial)
    pub seen: std::sync::Mutex<std::collections::HashSet<u64>>,
    /// for very large files: use the header digest as state fingerprint (no search is run on them)
    pub cheap_fingerprint: bool,
}

struct Replayed {
    stream: Option<Stream>,
    env: Arc<std::sync::Mutex<EnvState>>,
}

impl SModel {
    pub fn new(img: Image, which: Which, dev: u32) -> SModel {
        let rh = ref_headers(&img.bytes);
        let (slice_open_digest, empty) = match ElfBytes::<AnyEndian>::minimal_parse(&img.bytes) {
            Ok(f) => (Some(open_digest_slice(&f)), f.section_headers().map(|t| t.is_empty()).unwrap_or(false)),
            Err(_) => (None, false),
        };
        SModel {
            img,
            which,
            dev,
            rh,
            transitions: AtomicU64::new(0),
            executions: AtomicU64::new(0),
            applied_dev: AtomicU64::new(0),
            ok_results: AtomicU64::new(0),
            slice_open_digest,
            empty_shdr_table: empty,
            seen: std::sync::Mutex::new(std::collections::HashSet::new()),
            cheap_fingerprint: false,
        }
    }

    fn choices(&self) -> &'static [Choice] {
        match self.which {
            Which::C17 => &FAULTS_AND_SHORT,
            _ => &LEGAL,
        }
    }

    /// Replay a history without judging it.
    fn replay(&self, hist: &[Act]) -> Replayed {
        let mut cur: Option<Stream> = None;
        let mut env = None;
        for a in hist {
            match &a.kind {
                ActKind::Open(p0) => {
                    let (r, st) = open_stream_at(&self.img.bytes, &a.script, *p0);
                    env = Some(st);
                    cur = match r {
                        Ok(Ok(s)) => Some(s),
                        _ => None,
                    };
                }
                ActKind::Op(op) => {
                    if let (Some(s), Some(st)) = (cur.as_mut(), env.as_ref()) {
                        begin_op(st, &a.script);
                        let _ = run_op_stream(s, &self.img, *op);
                    }
                }
            }
            self.executions.fetch_add(1, Ordering::Relaxed);
        }
        Replayed { stream: cur, env: env.unwrap_or_else(|| EnvReader::new(self.img.bytes.clone()).1) }
    }

    /// I/O calls made by `kind` after `hist` under `script` (choice-point discovery).
    fn discover(&self, hist: &[Act], kind: &ActKind, script: &[(u32, Choice)]) -> Vec<IoEvent> {
        match kind {
            ActKind::Open(p0) => {
                let (_, st) = open_stream_at(&self.img.bytes, script, *p0);
                self.executions.fetch_add(1, Ordering::Relaxed);
                let g = st.lock().unwrap();
                g.log.clone()
            }
            ActKind::Op(op) => {
                let mut r = self.replay(hist);
                if let Some(s) = r.stream.as_mut() {
                    begin_op(&r.env, script);
                    let _ = run_op_stream(s, &self.img, *op);
                    self.executions.fetch_add(1, Ordering::Relaxed);
                }
                let g = r.env.lock().unwrap();
                g.log.clone()
            }
        }
    }

    pub fn scripts(&self, hist: &[Act], kind: &ActKind, prefix: Vec<(u32, Choice)>, budget: u32, out: &mut Vec<Vec<(u32, Choice)>>) {
        if budget == 0 {
            return;
        }
        let log = self.discover(hist, kind, &prefix);
        let from = prefix.last().map(|(i, _)| *i + 1).unwrap_or(0);
        for (i, ev) in log.iter().enumerate().skip(from as usize) {
            let mut alts: Vec<Choice> = Vec::new();
            match ev {
                IoEvent::Read { got, .. } => {
                    let mut seen = Vec::new();
                    for c in self.choices() {
                        let k = match c {
                            Choice::Short1 | Choice::ShortThenEof => 1usize,
                            Choice::Short2 => 2,
                            Choice::ShortHalf => got / 2,
                            Choice::ShortNm2 => got.wrapping_sub(2),
                            Choice::ShortNm1 => got.wrapping_sub(1),
                            Choice::SeekErr | Choice::SeekErrDead | Choice::SeekInterrupted | Choice::SeekInterrupted2 => continue,
                            Choice::Eof | Choice::EofDead => {
                                if *got > 0 {
                                    alts.push(*c);
                                }
                                continue;
                            }
                            _ => {
                                alts.push(*c);
                                continue;
                            }
                        };
                        if k >= 1 && k < *got && (*c == Choice::ShortThenEof || !seen.contains(&k)) {
                            if *c != Choice::ShortThenEof {
                                seen.push(k);
                            }
                            alts.push(*c);
                        }
                    }
                }
                IoEvent::Seek { .. } => {
                    for c in self.choices() {
                        if matches!(c, Choice::SeekErr | Choice::SeekErrDead | Choice::SeekInterrupted | Choice::SeekInterrupted2) {
                            alts.push(*c);
                        }
                    }
                }
                _ => {}
            }
            for c in alts {
                let mut s = prefix.clone();
                s.push((i as u32, c));
                out.push(s.clone());
                self.scripts(hist, kind, s, budget - 1, out);
            }
        }
    }

    fn compressed_scope(&self, op: Op) -> bool {
        match op.kind {
            OpKind::SectionData | OpKind::AsStrtab | OpKind::AsRels | OpKind::AsRelas | OpKind::AsNotes => is_compressed(&self.img.shdr_pool[op.arg as usize]),
            OpKind::Dynamic => self.rh.shdrs.iter().find(|h| h[1] == SHT_DYNAMIC as u64).map(|h| h[2] & SHF_COMPRESSED != 0).unwrap_or(false),
            OpKind::SymbolTable | OpKind::DynSymbolTable | OpKind::SymVer | OpKind::ShdrsWithStrtab | OpKind::ByName => self.rh.shdrs.iter().any(|h| h[2] & SHF_COMPRESSED != 0 && h[1] != SHT_PROGBITS as u64),
            OpKind::SegNotes => false,
        }
    }

    /// Execute one action from `state` with every oracle of `which`.
    pub fn step(&self, state: &SState, act: &Act) -> Option<SState> {
        self.transitions.fetch_add(1, Ordering::Relaxed);
        let flen = self.img.bytes.len();
        // for C17 every scripted deviation (plain short reads included) puts the answer under the
        // 'Err or exactly the fault-free answer' rule
        let fault_script = act.script.iter().any(|(_, c)| c.is_fault() || self.which == Which::C17);
        let mut hist = state.hist.clone();
        hist.push(act.clone());
        let mut bad: Option<String> = None;
        match &act.kind {
            ActKind::Open(p0) => {
                arm_alloc_limit(flen);
                let (r, st) = open_stream_at(&self.img.bytes, &act.script, *p0);
                self.executions.fetch_add(1, Ordering::Relaxed);
                let stats = alloc::stats();
                alloc::set_limit(u64::MAX);
                let (log, applied) = {
                    let g = st.lock().unwrap();
                    (g.log.clone(), g.applied)
                };
                if applied < act.script.len() as u32 {
                    return None; // a scripted deviation did not apply: same as a shorter script
                }
                self.applied_dev.fetch_add(applied as u64, Ordering::Relaxed);
                let (phase, fp, stream_ok) = match &r {
                    Err(m) => {
                        bad = Some(format!("panic in open_stream: {m}"));
                        (2u8, 1u128, false)
                    }
                    Ok(Err(())) => (2, 2, false),
                    Ok(Ok(s)) => (1, if self.cheap_fingerprint { open_digest_stream(s) as u128 } else { fingerprint(s, &st) }, true),
                };
                if bad.is_none() {
                    match self.which {
                        Which::C07 => {
                            if stream_ok != self.slice_open_digest.is_some() {
                                bad = Some(format!("open_stream {} but minimal_parse {}", if stream_ok { "succeeds" } else { "fails" }, if stream_ok { "fails" } else { "succeeds" }));
                            } else if let Ok(Ok(s)) = &r {
                                if Some(open_digest_stream(s)) != self.slice_open_digest {
                                    bad = Some("file header / section headers / program headers differ between stream and slice".into());
                                }
                            }
                        }
                        Which::C08 => {
                            if let Some((p, n)) = reads_outside(&log, &self.rh.open_ranges) {
                                bad = Some(format!("open_stream read [{p}, {}) which is outside the file header and the two header tables {:?}", p + n as u64, self.rh.open_ranges));
                            }
                            if stats.max_req > alloc_bound(flen) {
                                bad = Some(format!("single allocation of {} bytes for a {}-byte stream", stats.max_req, flen));
                            }
                        }
                        Which::C17 => {
                            if stream_ok {
                                if let Ok(Ok(s)) = &r {
                                    if Some(open_digest_stream(s)) != self.slice_open_digest {
                                        bad = Some("open_stream under an injected fault returned Ok with fabricated headers".into());
                                    }
                                }
                            }
                        }
                    }
                }
                if stream_ok {
                    self.ok_results.fetch_add(1, Ordering::Relaxed);
                    self.seen.lock().unwrap().insert(fp as u64);
                }
                Some(SState { hist, fp, phase, bad, faulted: state.faulted || fault_script })
            }
            ActKind::Op(op) => {
                let mut r = self.replay(&state.hist);
                let s = r.stream.as_mut()?;
                begin_op(&r.env, &act.script);
                arm_alloc_limit(flen);
                let (res, panic_msg) = run_op_stream(s, &self.img, *op);
                self.executions.fetch_add(1, Ordering::Relaxed);
                let stats = alloc::stats();
                alloc::set_limit(u64::MAX);
                let (log, applied) = {
                    let g = r.env.lock().unwrap();
                    (g.log.clone(), g.applied)
                };
                if applied < act.script.len() as u32 {
                    return None;
                }
                self.applied_dev.fetch_add(applied as u64, Ordering::Relaxed);
                if res.ok {
                    self.ok_results.fetch_add(1, Ordering::Relaxed);
                }
                let fp = if self.cheap_fingerprint {
                    // no search runs on these (histories are enumerated): the history itself is the state
                    let mut f = crate::util::Fnv::new();
                    f.bytes(format!("{:?}", hist).as_bytes());
                    f.u64(res.ok as u64 ^ res.digest);
                    f.get() as u128
                } else {
                    fingerprint(s, &r.env)
                };
                self.seen.lock().unwrap().insert(fp as u64 ^ (state.faulted || fault_script) as u64);
                if let Some(m) = panic_msg {
                    bad = Some(format!("panic in {:?}: {}", op, m));
                } else {
                    let scoped_out = self.compressed_scope(*op) || self.empty_shdr_table;
                    let truth = {
                        let f = ElfBytes::<AnyEndian>::minimal_parse(&self.img.bytes).ok()?;
                        run_op_slice(&f, &self.img, *op)
                    };
                    match self.which {
                        Which::C07 => {
                            if !scoped_out {
                                if truth.ok && !res.ok {
                                    bad = Some(format!("{:?}: the slice parser succeeds but the stream parser fails", op));
                                } else if truth.ok && res.ok && truth.digest != res.digest {
                                    bad = Some(format!("{:?}: both succeed but the content differs", op));
                                } else if !truth.ok && res.ok && matches!(op.kind, OpKind::SectionData | OpKind::SymbolTable | OpKind::DynSymbolTable | OpKind::SymVer | OpKind::SegNotes) {
                                    bad = Some(format!("{:?}: the slice parser fails but the stream parser succeeds", op));
                                }
                            }
                        }
                        Which::C08 => {
                            let des = designated(&self.rh, &self.img, *op);
                            if let Some((p, n)) = reads_outside(&log, &des) {
                                bad = Some(format!("{:?} read [{p}, {}) outside the ranges it designates {:?}", op, p + n as u64, des));
                            }
                            if stats.max_req > alloc_bound(flen) {
                                bad = Some(format!("{:?}: single allocation of {} bytes for a {}-byte stream", op, stats.max_req, flen));
                            }
                        }
                        Which::C17 => {
                            // under (or after) a fault: Err, or exactly the fault-free answer
                            if (state.faulted || fault_script) && res.ok && scoped_out {
                                // outside the slice comparison's scope (compressed sections, empty
                                // section header table): the truth is the stream's own answer to the
                                // same query on a fresh fault-free stream
                                let (fr, _) = open_stream_at(&self.img.bytes, &[], 0);
                                if let Ok(Ok(mut fs)) = fr {
                                    let (fres, fp) = run_op_stream(&mut fs, &self.img, *op);
                                    if fp.is_none() && (!fres.ok || fres.digest != res.digest) {
                                        bad = Some(format!(
                                            "{:?} returned Ok with {} after an injected I/O fault (truth: the same query on a fresh fault-free stream)",
                                            op,
                                            if fres.ok { "content that differs from the fault-free answer" } else { "data although the fault-free answer is an error" }
                                        ));
                                    }
                                }
                            }
                            if (state.faulted || fault_script) && res.ok && !scoped_out {
                                if !truth.ok || truth.digest != res.digest {
                                    bad = Some(format!(
                                        "{:?} returned Ok with {} after an injected I/O fault",
                                        op,
                                        if truth.ok { "content that differs from the fault-free answer" } else { "data although the fault-free answer is an error" }
                                    ));
                                }
                            }
                        }
                    }
                }
                Some(SState { hist, fp, phase: 1, bad, faulted: state.faulted || fault_script })
            }
        }
    }
}

impl Model for SModel {
    type State = SState;
    type Action = Act;
    fn init_states(&self) -> Vec<SState> {
        vec![SState { hist: Vec::new(), fp: 0, phase: 0, bad: None, faulted: false }]
    }
    fn actions(&self, s: &SState, out: &mut Vec<Act>) {
        if s.bad.is_some() || s.phase == 2 {
            return;
        }
        let l = self.img.bytes.len() as u64;
        let kinds: Vec<ActKind> = if s.phase == 0 { vec![ActKind::Open(0), ActKind::Open(16), ActKind::Open(64.min(l)), ActKind::Open(l), ActKind::Open(l + 7)] } else { self.img.ops.iter().map(|o| ActKind::Op(*o)).collect() };
        for k in kinds {
            out.push(Act { kind: k.clone(), script: Vec::new() });
            if self.dev > 0 {
                let mut scripts = Vec::new();
                self.scripts(&s.hist, &k, Vec::new(), self.dev, &mut scripts);
                for sc in scripts {
                    out.push(Act { kind: k.clone(), script: sc });
                }
            }
        }
    }
    fn next_state(&self, s: &SState, a: Act) -> Option<SState> {
        self.step(s, &a)
    }
    fn properties(&self) -> Vec<Property<Self>> {
        vec![Property::always("holds", |_: &SModel, s: &SState| s.bad.is_none())]
    }
}

/// Independent 40-line BFS over the same transition function: cross-checks the search engine
/// (unique states and generated transitions must agree with stateright's for fixpoint runs).
pub fn handrolled_bfs(m: &SModel) -> (usize, u64, bool) {
    use std::collections::{HashSet, VecDeque};
    let mut seen: HashSet<SState> = HashSet::new();
    let mut q: VecDeque<SState> = VecDeque::new();
    for s in m.init_states() {
        seen.insert(s.clone());
        q.push_back(s);
    }
    let mut transitions = 0u64;
    let mut bad = false;
    while let Some(s) = q.pop_front() {
        if s.bad.is_some() {
            bad = true;
            continue;
        }
        let mut acts = Vec::new();
        m.actions(&s, &mut acts);
        for a in acts {
            if let Some(n) = m.next_state(&s, a) {
                transitions += 1;
                if seen.insert(n.clone()) {
                    q.push_back(n);
                }
            }
        }
    }
    (seen.len(), transitions, bad)
}

// ------------------------------------------------------------------ the Space wrapper
pub struct StreamCase {
    pub make: fn(Enc) -> Image,
    pub enc: Enc,
    pub dev: u32,
    pub max_depth: Option<usize>,
    pub label: &'static str,
}

pub struct StreamSpace {
    /// seconds the search of one image may take before it is stopped and reported as capped
    pub budget_secs: u64,
    pub which: Which,
    pub cases: Vec<StreamCase>,
    pub threads: usize,
}

fn act_json(img: &Image, a: &Act) -> Value {
    let k = match &a.kind {
        ActKind::Open(p0) => json!({"open_stream_with_reader_at": p0}),
        ActKind::Op(op) => match op.kind {
            OpKind::SectionData | OpKind::AsStrtab | OpKind::AsRels | OpKind::AsRelas | OpKind::AsNotes => {
                let h = &img.shdr_pool[op.arg as usize];
                json!({"op": format!("{:?}", op.kind), "shdr": {"type": h.sh_type, "flags": h.sh_flags, "offset": h.sh_offset, "size": h.sh_size, "addralign": h.sh_addralign}})
            }
            OpKind::SegNotes => {
                let p = &img.phdr_pool[op.arg as usize];
                json!({"op": "SegNotes", "phdr": {"type": p.p_type, "offset": p.p_offset, "filesz": p.p_filesz, "align": p.p_align}})
            }
            OpKind::ByName => json!({"op": "ByName", "name": img.names[op.arg as usize]}),
            _ => json!({"op": format!("{:?}", op.kind)}),
        },
    };
    json!({"action": k, "env_script": a.script.iter().map(|(i, c)| format!("io#{i} := {:?}", c)).collect::<Vec<_>>()})
}

impl Space for StreamSpace {
    fn name(&self) -> String {
        format!(
            "{:?}: stateright BFS over the real ElfStream (state = canonical Debug text of the stream incl. cache contents + reader position + env mode), {} images",
            self.which,
            self.cases.len()
        )
    }
    fn size(&self) -> u64 {
        self.cases.len() as u64
    }
    fn chunk_hint(&self) -> u64 {
        1
    }
    fn hang_secs(&self) -> u64 {
        3600
    }
    fn describe(&self, idx: u64) -> Value {
        let c = &self.cases[idx as usize];
        let img = (c.make)(c.enc);
        json!({"image": img.name, "bytes": img.bytes.len(), "ops": img.ops.len(), "deviation_budget_per_transition": c.dev, "max_depth": c.max_depth, "sample_actions": img.ops.iter().take(3).map(|o| act_json(&img, &Act{kind: ActKind::Op(*o), script: vec![]})).collect::<Vec<_>>()})
    }
    /// Replays exactly the recorded path (no search): every step's outcome is printed.
    fn replay(&self, idx: u64, detail: &str, out: &mut Outcome) {
        let line = match detail.lines().find(|l| l.starts_with("PATH: ")) {
            Some(l) => &l[6..],
            None => return self.run(idx, out),
        };
        let path: Vec<Value> = serde_json::from_str(line).expect("PATH json");
        let c = &self.cases[idx as usize];
        let m = SModel::new((c.make)(c.enc), self.which, c.dev);
        let mut s = m.init_states()[0].clone();
        for (n, step) in path.iter().enumerate() {
            let kind = match step["k"].as_u64() {
                Some(i) => ActKind::Op(m.img.ops[i as usize]),
                None => ActKind::Open(step["k"].as_str().and_then(|x| x.strip_prefix("open@")).and_then(|x| x.parse().ok()).unwrap_or(0)),
            };
            let script: Vec<(u32, Choice)> = step["s"].as_array().map(|a| a.iter().map(|x| (x[0].as_u64().unwrap() as u32, Choice::from_name(x[1].as_str().unwrap()).expect("choice"))).collect()).unwrap_or_default();
            let act = Act { kind, script };
            println!("step {}: {}", n, act_json(&m.img, &act));
            match m.step(&s, &act) {
                None => {
                    println!("  (the environment script did not apply: replay diverged)");
                    panic!("replay diverged at step {n}");
                }
                Some(t) => {
                    println!("  -> phase {} verdict {:?}", t.phase, t.bad);
                    s = t;
                }
            }
        }
        if let Some(b) = s.bad {
            out.violate("replayed-path", b);
        }
    }
    fn run(&self, idx: u64, out: &mut Outcome) {
        let c = &self.cases[idx as usize];
        let img = (c.make)(c.enc);
        let model = SModel::new(img, self.which, c.dev);
        let mut b = model.checker().threads(self.threads);
        if let Some(d) = c.max_depth {
            // stateright counts the initial state as depth 1 and skips states at the target depth
            // before evaluating them: init(1) -> open(2) -> d ops (d+2) must all be evaluated
            b = b.target_max_depth(d + 3);
        }
        // budget inside the engine: a changed implementation can enlarge the state space without
        // bound (an extra field in the stream's Debug text); hitting the budget is reported as a cap
        // (the run is then not exhaustive), never as a verdict. Unchanged tree: < 60 s per image.
        let budget = std::time::Duration::from_secs(if c.label.contains("fixpoint") || c.max_depth.map(|d| d >= 3).unwrap_or(true) { self.budget_secs } else { self.budget_secs / 2 });
        b = b.timeout(budget);
        let t0 = std::time::Instant::now();
        let chk = b.spawn_bfs().join();
        let m = chk.model();
        if t0.elapsed() >= budget && chk.discovery("holds").is_none() {
            out.extra.insert(format!("capped_{}_{}", c.label, c.enc.name()), json!(format!("search stopped at the {} s engine budget after {} unique states", budget.as_secs(), chk.unique_state_count())));
            out.count("engine_budget_hit");
        }
        out.extra.insert(format!("secs_{}_{}", c.label, c.enc.name()), json!((t0.elapsed().as_secs_f64() * 10.0).round() / 10.0));
        out.extra.insert(format!("states_{}_{}", c.label, c.enc.name()), json!(chk.unique_state_count()));
        out.states += chk.unique_state_count() as u64;
        out.transitions += m.transitions.load(Ordering::Relaxed);
        out.count_n("implementation_executions(incl. replays and choice discovery)", m.executions.load(Ordering::Relaxed));
        out.count_n("environment_deviations_applied", m.applied_dev.load(Ordering::Relaxed));
        out.count_n("ok_results", m.ok_results.load(Ordering::Relaxed));
        out.count_n("unique_states", chk.unique_state_count() as u64);
        let depth_key = format!("max_depth_{}", c.label);
        out.extra.insert(depth_key, json!(chk.max_depth()));
        if c.max_depth.is_some() {
            out.count("depth_capped_images");
        } else {
            out.count("fixpoint_images");
            // engine cross-check on the small fixpoint graphs
            if c.label.starts_with("s_phdrs") && chk.discovery("holds").is_none() {
                let m2 = SModel::new((c.make)(c.enc), self.which, c.dev);
                let (states, _tr, bad) = handrolled_bfs(&m2);
                if states != chk.unique_state_count() || bad {
                    panic!("search engines disagree on {}: stateright {} unique states, hand-rolled BFS {} (bad={})", c.label, chk.unique_state_count(), states, bad);
                }
                out.count_n("crosscheck_handrolled_bfs_states_equal_stateright", states as u64);
            }
        }
        for fp in m.seen.lock().unwrap().iter() {
            out.nontrivial(*fp ^ (idx << 56));
        }
        if let Some(path) = chk.discovery("holds") {
            let last = path.last_state().clone();
            let acts: Vec<Act> = path.into_actions();
            // determinism: replay the path twice on fresh objects
            let mut s1 = m.init_states()[0].clone();
            let mut s2 = s1.clone();
            for a in &acts {
                s1 = m.step(&s1, a).expect("replay 1");
                s2 = m.step(&s2, a).expect("replay 2");
            }
            if s1.fp != s2.fp || s1.bad != s2.bad || s1.bad != last.bad {
                panic!("non-deterministic replay of a violating path: {:?} vs {:?} vs {:?}", s1.bad, s2.bad, last.bad);
            }
            let what = last.bad.clone().unwrap_or_default();
            // "Op { kind: X, arg: n }: text" -> "X: text"
            let short = {
                let mut t = what.clone();
                if let (Some(a), Some(b)) = (t.find("Op { kind: "), t.find(" }")) {
                    if a < b {
                        let kind = t[a + 11..b].split(',').next().unwrap_or("").to_string();
                        t = format!("{}{}{}", &t[..a], kind, &t[b + 2..]);
                    }
                }
                t.split(" [").next().unwrap_or("").split(" read [").next().unwrap_or("").chars().take(90).collect::<String>()
            };
            let key = match self.which {
                Which::C07 => format!("stream-vs-slice:{}", short),
                Which::C08 => format!("stream-bounds:{}", short),
                Which::C17 => format!("fault-residue:{}", short),
            };
            let key = if what.contains("panic") { format!("panic:ElfStream in {}", panic_site(&what)) } else { key };
            // machine-readable path for `./check replay`: open / op index into the image's op list + env script
            let compact: Vec<Value> = acts
                .iter()
                .map(|a| {
                    let k = match &a.kind {
                        ActKind::Open(p0) => json!(format!("open@{}", p0)),
                        ActKind::Op(op) => json!(m.img.ops.iter().position(|o| o == op)),
                    };
                    json!({"k": k, "s": a.script.iter().map(|(i, c)| json!([i, format!("{:?}", c)])).collect::<Vec<_>>()})
                })
                .collect();
            out.violate(
                key,
                format!(
                    "{}\nimage {}\npath ({} actions): {}\nPATH: {}",
                    what,
                    m.img.name,
                    acts.len(),
                    serde_json::to_string(&acts.iter().map(|a| act_json(&m.img, a)).collect::<Vec<_>>()).unwrap(),
                    serde_json::to_string(&compact).unwrap()
                ),
            );
        }
    }
}

pub fn stream_cases(tier: Tier, _which: Which) -> Vec<StreamCase> {
    let encs: Vec<Enc> = if tier == Tier::Quick { vec![ENCS[2], ENCS[1]] } else { ENCS.to_vec() };
    fn tiny_img(enc: Enc) -> Image {
        let (b, _) = tiny_full(enc, TableOrder::Linker);
        image_from_bytes(&format!("tiny-full/{}", enc.name()), b.bytes, Some(idx::DATA), &[".dynsym", ".absent", ".gnu.version", ".gnu"], 64)
    }
    let mut v = Vec::new();
    for e in &encs {
        match tier {
            Tier::Quick => {
                // deviation 0: fixpoint over all reachable cache states; deviation 1: from every state
                // within 2 ops of opening (iterating the deviation bound, see DESIGN.md 2.6)
                v.push(StreamCase { make: s_core, enc: *e, dev: 0, max_depth: None, label: "s_core_dev0_fixpoint" });
                v.push(StreamCase { make: s_small, enc: *e, dev: 0, max_depth: Some(3), label: "s_small_dev0_depth3" });
                v.push(StreamCase { make: s_small, enc: *e, dev: 1, max_depth: Some(2), label: "s_small_dev1_depth2" });
                v.push(StreamCase { make: s_phdrs, enc: *e, dev: 1, max_depth: None, label: "s_phdrs_dev1_fixpoint" });
                v.push(StreamCase { make: s_symver, enc: *e, dev: 0, max_depth: Some(4), label: "s_symver_dev0_depth4" });
                v.push(StreamCase { make: s_symver, enc: *e, dev: 1, max_depth: Some(1), label: "s_symver_dev1_depth1" });
                v.push(StreamCase { make: s_odd, enc: *e, dev: 0, max_depth: Some(3), label: "s_odd_dev0_depth3" });
                v.push(StreamCase { make: s_odd, enc: *e, dev: 1, max_depth: Some(1), label: "s_odd_dev1_depth1" });
                v.push(StreamCase { make: s_core_as_corefile, enc: *e, dev: 1, max_depth: Some(1), label: "s_corefile_dev1_depth1" });
            }
            Tier::Thorough => {
                v.push(StreamCase { make: s_core, enc: *e, dev: 1, max_depth: None, label: "s_core_dev1_fixpoint" });
                v.push(StreamCase { make: s_small, enc: *e, dev: 0, max_depth: None, label: "s_small_dev0_fixpoint" });
                v.push(StreamCase { make: s_small, enc: *e, dev: 1, max_depth: Some(4), label: "s_small_dev1_depth4" });
                v.push(StreamCase { make: s_small, enc: *e, dev: 2, max_depth: Some(2), label: "s_small_dev2_depth2" });
                v.push(StreamCase { make: s_phdrs, enc: *e, dev: 2, max_depth: None, label: "s_phdrs_dev2_fixpoint" });
                v.push(StreamCase { make: s_symver, enc: *e, dev: 0, max_depth: None, label: "s_symver_dev0_fixpoint" });
                v.push(StreamCase { make: s_symver, enc: *e, dev: 1, max_depth: Some(3), label: "s_symver_dev1_depth3" });
                v.push(StreamCase { make: s_odd, enc: *e, dev: 0, max_depth: None, label: "s_odd_dev0_fixpoint" });
                v.push(StreamCase { make: s_odd, enc: *e, dev: 1, max_depth: Some(3), label: "s_odd_dev1_depth3" });
                v.push(StreamCase { make: s_core_as_corefile, enc: *e, dev: 1, max_depth: Some(2), label: "s_corefile_dev1_depth2" });
            }
        }
    }
    // depth-capped exploration of the full skeleton (every op pair / triple)
    v.push(StreamCase { make: tiny_img, enc: encs[0], dev: 0, max_depth: Some(tier.pick(2, 3)), label: "tiny_full_dev0" });
    v.push(StreamCase { make: tiny_img, enc: encs[1], dev: 1, max_depth: Some(tier.pick(1, 2)), label: "tiny_full_dev1" });
    v
}

// ------------------------------------------------------------------ opening huge files under faults
/// open_stream on files with 0x10010 program headers / 0xff20 sections (extended numbering) under
/// every single deviation of the alphabet at every I/O call of opening.
pub struct HugeOpen {
    pub which: Which,
}
impl Space for HugeOpen {
    fn name(&self) -> String {
        format!("{:?}: open_stream on files with 0x10010 program headers and 0xff20 or 3 section headers (PN_XNUM with and without the e_shnum = 0 escape), reader at 4 start positions, every single deviation at every I/O call of opening; 2 encodings", self.which)
    }
    fn size(&self) -> u64 {
        4
    }
    fn chunk_hint(&self) -> u64 {
        1
    }
    fn hang_secs(&self) -> u64 {
        600
    }
    fn describe(&self, idx: u64) -> Value {
        json!({"encoding": ENCS[if idx % 2 == 0 { 2 } else { 1 }].name(), "program_headers": 0x10010, "section_headers": if idx < 2 { 0xff20 } else { 3 }})
    }
    fn run(&self, idx: u64, out: &mut Outcome) {
        use super::c05::*;
        let enc = ENCS[if idx % 2 == 0 { 2 } else { 1 }];
        // both escapes (e_shnum = 0 and PN_XNUM), or PN_XNUM alone with an ordinary section count
        let nsec = if idx < 2 { 0xff20 } else { 3 };
        let e = reference_encoding(nsec, 0x10010, 2);
        let shs = layout(Kind::Shdr, enc.class).size as u64;
        let phs = layout(Kind::Phdr, enc.class).size as u64;
        let img = make(enc, nsec, 0x10010, 2, Placement::PhThenSh, &e, shs, phs);
        let bytes = Arc::new(img.bytes);
        let image = Image { name: format!("huge-tables/{}", enc.name()), bytes: bytes.clone(), shdr_pool: Vec::new(), phdr_pool: Vec::new(), names: Vec::new(), ops: Vec::new() };
        let mut m = SModel::new(image, self.which, 1);
        m.cheap_fingerprint = true;
        let init = m.init_states()[0].clone();
        let l = bytes.len() as u64;
        for p0 in [0u64, 16, l, l + 5] {
            let kind = ActKind::Open(p0);
            let mut scripts: Vec<Vec<(u32, Choice)>> = vec![vec![]];
            m.scripts(&[], &kind, Vec::new(), 1, &mut scripts);
            for sc in scripts {
                if let Some(t) = m.step(&init, &Act { kind: kind.clone(), script: sc.clone() }) {
                    out.transitions += 1;
                    if let Some(bad) = t.bad {
                        let key = if bad.contains("panic") { format!("panic:ElfStream::open_stream in {}", panic_site(&bad)) } else { "huge-open:wrong result under an environment deviation".to_string() };
                        out.violate(key, format!("reader at {p0}, env script {:?}: {}", sc, bad));
                        return;
                    }
                }
            }
        }
        out.nontrivial(idx + 0x4000);
    }
}

// ------------------------------------------------------------------ sessions on a multi-megabyte file
/// Every history of up to `depth` queries on an 18.5 MiB file whose sections are 9 MiB, 6 MiB,
/// 2 MiB, 1 MiB and 2 x 0.25 MiB large: behaviour that depends on the total number of bytes cached
/// (budgets, evictions, size-class switches) is out of reach of the small images.
pub struct HugeSession {
    pub which: Which,
    pub depth: usize,
    pub encs: usize,
}
fn huge_session_image(enc: Enc) -> Image {
    let mut spec = Spec::new(enc, TableOrder::Linker);
    let symsz = layout(Kind::Sym, enc.class).size;
    let mib = 1usize << 20;
    let fill = |n: usize, salt: u64| -> Vec<u8> { (0..n).map(|i| ((i as u64).wrapping_mul(0x9e3779b97f4a7c15).wrapping_add(salt) >> 56) as u8).collect() };
    let strtab = |n: usize| -> Vec<u8> { (0..n).map(|i| if i % 9 == 0 || i + 1 == n { 0 } else { b'a' + (i % 23) as u8 }).collect() };
    let symtab = |bytes: usize, strlen: usize| -> Vec<u8> {
        let n = bytes / symsz;
        let mut v = Vec::with_capacity(n * symsz);
        for i in 0..n {
            let vals: Vec<u64> = if i == 0 { vec![0; 6] } else { vec![((i * 9) % strlen) as u64, 0x1000 + i as u64, 8, 0x12, 0, 1] };
            v.extend_from_slice(&encode(Kind::Sym, enc, &vals, 0));
        }
        v
    };
    spec.secs = vec![
        Sec::new(b".text", SHT_PROGBITS, fill(9 * mib + 1, 1)),
        Sec::new(b".symtab", SHT_SYMTAB, symtab(6 * mib, 2 * mib)).link(3).entsize(symsz as u64),
        Sec::new(b".strtab", SHT_STRTAB, strtab(2 * mib)),
        Sec::new(b".data", SHT_PROGBITS, fill(mib, 2)),
        Sec::new(b".dynsym", SHT_DYNSYM, symtab(mib / 4, mib / 4)).link(6).entsize(symsz as u64),
        Sec::new(b".dynstr", SHT_STRTAB, strtab(mib / 4)),
    ];
    let b = build(&spec);
    let mut img = image_from_bytes(&format!("huge-session/{}", enc.name()), b.bytes, None, &[".data"], 8);
    img.ops = vec![
        Op { kind: OpKind::SectionData, arg: 1 },
        Op { kind: OpKind::SymbolTable, arg: 0 },
        Op { kind: OpKind::SectionData, arg: 4 },
        Op { kind: OpKind::DynSymbolTable, arg: 0 },
        Op { kind: OpKind::AsStrtab, arg: 3 },
        Op { kind: OpKind::ShdrsWithStrtab, arg: 0 },
    ];
    img
}
impl Space for HugeSession {
    fn name(&self) -> String {
        format!("{:?}: every history of 1..={} queries out of {{.text data (9 MiB), symbol_table (6 + 2 MiB), .data data (1 MiB), dynamic_symbol_table (2 x 0.25 MiB), .strtab as string table (2 MiB), section headers + names}} on an 18.5 MiB file{}; {} encoding(s)", self.which, self.depth, if self.which == Which::C17 { ", each single fault in the last query of every history of <= 2 queries" } else { "" }, self.encs)
    }
    fn size(&self) -> u64 {
        6 * self.encs as u64
    }
    fn chunk_hint(&self) -> u64 {
        1
    }
    fn hang_secs(&self) -> u64 {
        900
    }
    fn describe(&self, idx: u64) -> Value {
        json!({"encoding": ENCS[if idx / 6 == 0 { 2 } else { 1 }].name(), "first_query": idx % 6, "file_bytes": "about 19.4 million"})
    }
    fn run(&self, idx: u64, out: &mut Outcome) {
        let enc = ENCS[if idx / 6 == 0 { 2 } else { 1 }];
        let img = huge_session_image(enc);
        let ops = img.ops.clone();
        let mut m = SModel::new(img, self.which, 0);
        m.cheap_fingerprint = true;
        let init = m.init_states()[0].clone();
        let opened = match m.step(&init, &Act { kind: ActKind::Open(0), script: vec![] }) {
            Some(s) if s.bad.is_none() && s.phase == 1 => s,
            other => {
                out.violate("huge-session:open", format!("the 18.5 MiB file does not open through the stream: {:?}", other.and_then(|s| s.bad)));
                return;
            }
        };
        // depth-first over histories that start with ops[idx % 6]
        let mut stack: Vec<(SState, usize)> = Vec::new();
        let first = ops[(idx % 6) as usize];
        let mut pending: Vec<(SState, Op, usize)> = vec![(opened, first, 1)];
        let mut histories = 0u64;
        while let Some((st, op, d)) = pending.pop() {
            let mut scripts: Vec<Vec<(u32, Choice)>> = vec![vec![]];
            if self.which == Which::C17 && d <= 2 {
                m.scripts(&st.hist, &ActKind::Op(op), Vec::new(), 1, &mut scripts);
            }
            for sc in scripts {
                let plain = sc.is_empty();
                let t = match m.step(&st, &Act { kind: ActKind::Op(op), script: sc.clone() }) {
                    Some(t) => t,
                    None => continue,
                };
                out.transitions += 1;
                if let Some(bad) = &t.bad {
                    let key = if bad.contains("panic") { format!("panic:huge session in {}", panic_site(bad)) } else { format!("huge-session:{:?}", op.kind) };
                    let h: Vec<String> = t.hist.iter().map(|a| format!("{:?}{}", a.kind, if a.script.is_empty() { String::new() } else { format!("{:?}", a.script) })).collect();
                    out.violate(key, format!("history {}: {}", h.join(" ; "), bad));
                    return;
                }
                if plain {
                    histories += 1;
                    if d < self.depth {
                        for o in &ops {
                            pending.push((t.clone(), *o, d + 1));
                        }
                    }
                }
            }
        }
        let _ = &mut stack;
        out.states += histories;
        out.count_n("histories", histories);
        out.nontrivial(idx ^ 0x4855_4745 ^ histories << 16);
    }
}

// ------------------------------------------------------------------ large cache occupancies
/// The occupancy sweep at the sizes a bounded cache would choose: n distinct ranges loaded (n around
/// every power of two from 64 to 4096), then each op once. The history is executed directly on one
/// stream (no per-step oracle), only the final op is judged.
pub struct OccupancyBig {
    pub which: Which,
}
const BIG_N: [usize; 21] = [63, 64, 65, 127, 128, 129, 255, 256, 257, 511, 512, 513, 1023, 1024, 1025, 2047, 2048, 2049, 4095, 4096, 4097];
impl Space for OccupancyBig {
    fn name(&self) -> String {
        format!("{:?}: n distinct ranges loaded on one stream, n in {{63..65, 127..129, 255..257, 511..513, 1023..1025, 2047..2049, 4095..4097}}, then each op of the tiny-full image: no panic, and the answer equals the slice parser's; 2 encodings", self.which)
    }
    fn size(&self) -> u64 {
        2 * BIG_N.len() as u64
    }
    fn chunk_hint(&self) -> u64 {
        1
    }
    fn hang_secs(&self) -> u64 {
        600
    }
    fn describe(&self, idx: u64) -> Value {
        json!({"encoding": ENCS[if idx % 2 == 0 { 2 } else { 1 }].name(), "ranges_loaded_first": BIG_N[(idx / 2) as usize]})
    }
    fn run(&self, idx: u64, out: &mut Outcome) {
        let enc = ENCS[if idx % 2 == 0 { 2 } else { 1 }];
        let n = BIG_N[(idx / 2) as usize];
        let mut img = occupancy_image(enc);
        let base = img.shdr_pool.len();
        let flen = img.bytes.len() as u64;
        for i in 0..n as u64 {
            let start = 100 + (i % 1500);
            let len = 1 + i / 1500;
            assert!(start + len < flen);
            img.shdr_pool.push(SectionHeader { sh_name: 0, sh_type: abi::SHT_PROGBITS, sh_flags: 0, sh_addr: 0, sh_offset: start, sh_size: len, sh_link: 0, sh_info: 0, sh_addralign: 1, sh_entsize: 0 });
        }
        let ops: Vec<Op> = img.ops.clone();
        let slice = match ElfBytes::<AnyEndian>::minimal_parse(&img.bytes) {
            Ok(f) => f,
            Err(_) => return,
        };
        let mut dig = crate::util::Fnv::new();
        for op in ops {
            let (r, st) = open_stream_at(&img.bytes, &[], 0);
            let mut stream = match r {
                Ok(Ok(s)) => s,
                _ => {
                    out.violate("occupancy-big:open", "the tiny-full image does not open".to_string());
                    return;
                }
            };
            for k in 0..n {
                begin_op(&st, &[]);
                let (_, pm) = run_op_stream(&mut stream, &img, Op { kind: OpKind::SectionData, arg: (base + k) as u16 });
                if let Some(m) = pm {
                    out.violate(format!("panic:ElfStream in {}", panic_site(&m)), format!("loading range {k} of {n}: {m}"));
                    return;
                }
            }
            begin_op(&st, &[]);
            let (res, pm) = run_op_stream(&mut stream, &img, op);
            out.transitions += n as u64 + 1;
            if let Some(m) = pm {
                out.violate(format!("panic:ElfStream in {}", panic_site(&m)), format!("{:?} after {n} cached ranges: {m}", op));
                return;
            }
            if self.which == Which::C07 && !is_compressed_op(&img, op) {
                let truth = run_op_slice(&slice, &img, op);
                if truth.ok && (!res.ok || res.digest != truth.digest) {
                    out.violate(format!("occupancy-big:{:?}", op.kind), format!("{:?} after {n} cached ranges: the stream {} where the slice parser answers", op, if res.ok { "answers differently" } else { "fails" }));
                    return;
                }
            }
            dig.u64(res.digest ^ res.ok as u64);
        }
        out.nontrivial(dig.get() ^ idx);
    }
}
fn is_compressed_op(img: &Image, op: Op) -> bool {
    match op.kind {
        OpKind::SectionData | OpKind::AsStrtab | OpKind::AsRels | OpKind::AsRelas | OpKind::AsNotes => img.shdr_pool.get(op.arg as usize).map(is_compressed).unwrap_or(false),
        // the tiny-full image has one compressed PROGBITS section only: the table-level ops are in scope
        _ => false,
    }
}

// ------------------------------------------------------------------ cache-occupancy sweep
/// Linear histories: n distinct one-byte ranges are loaded first (n = 0..=max), then one op is
/// issued; for every n and every op the answer must equal the slice parser's (C07), stay inside
/// its designated ranges and allocation bound (C08) and, with one injected fault in the final op,
/// be an error or the fault-free answer (C17). Covers behaviour that depends on how full the
/// range cache is, which the BFS over small images cannot reach (depth = number of ranges).
pub struct Occupancy {
    pub which: Which,
    pub max: usize,
}
fn occupancy_image(enc: Enc) -> Image {
    let (b, _) = tiny_full(enc, TableOrder::Linker);
    let mut img = image_from_bytes(&format!("tiny-full/{}", enc.name()), b.bytes, None, &[".dynsym", ".absent"], 64);
    let base = img.shdr_pool.len();
    // filler headers: distinct one-byte ranges [i, i+1)
    for i in 0..128u64 {
        img.shdr_pool.push(SectionHeader { sh_name: 0, sh_type: abi::SHT_PROGBITS, sh_flags: 0, sh_addr: 0, sh_offset: 100 + i, sh_size: 1, sh_link: 0, sh_info: 0, sh_addralign: 1, sh_entsize: 0 });
    }
    img.names.push(format!("{}", base)); // remember where the fillers start
    img
}
impl Space for Occupancy {
    fn name(&self) -> String {
        format!("{:?}: cache-occupancy sweep on the tiny-full skeleton: n = 0..={} distinct ranges loaded, then each of the ops (and, for C17, each single fault in it); 2 encodings", self.which, self.max)
    }
    fn size(&self) -> u64 {
        2 * (self.max as u64 + 1)
    }
    fn describe(&self, idx: u64) -> Value {
        json!({"encoding": ENCS[if idx % 2 == 0 { 2 } else { 1 }].name(), "ranges_loaded_first": idx / 2, "then": "every op of the image once, each on a fresh stream with that history"})
    }
    fn run(&self, idx: u64, out: &mut Outcome) {
        let enc = ENCS[if idx % 2 == 0 { 2 } else { 1 }];
        let n = (idx / 2) as usize;
        let img = occupancy_image(enc);
        let base: usize = img.names.last().unwrap().parse().unwrap();
        assert!(base + n <= img.shdr_pool.len(), "occupancy image has too few filler ranges for n = {n}");
        let ops: Vec<Op> = img.ops.clone();
        let model = SModel::new(img, self.which, 0);
        let mut dig = crate::util::Fnv::new();
        for op in ops {
            // history: open, n filler loads
            let mut s = model.init_states()[0].clone();
            s = match model.step(&s, &Act { kind: ActKind::Open(0), script: vec![] }) {
                Some(x) => x,
                None => return,
            };
            for k in 0..n {
                s = match model.step(&s, &Act { kind: ActKind::Op(Op { kind: OpKind::SectionData, arg: (base + k) as u16 }), script: vec![] }) {
                    Some(x) => x,
                    None => return,
                };
            }
            let mut scripts: Vec<Vec<(u32, Choice)>> = vec![vec![]];
            if self.which == Which::C17 {
                model.scripts(&s.hist, &ActKind::Op(op), Vec::new(), 1, &mut scripts);
            }
            if self.which == Which::C17 && n >= 30 {
                // a transient read fault on this very op BEFORE the fillers: residue of a failed
                // load must not surface dozens of loads later
                let mut s2 = model.init_states()[0].clone();
                s2 = model.step(&s2, &Act { kind: ActKind::Open(0), script: vec![] }).unwrap();
                if let Some(t) = model.step(&s2, &Act { kind: ActKind::Op(op), script: vec![(1, Choice::ReadErr)] }) {
                    let mut cur = t;
                    let mut ok = cur.bad.is_none();
                    for k in 0..n {
                        if !ok {
                            break;
                        }
                        match model.step(&cur, &Act { kind: ActKind::Op(Op { kind: OpKind::SectionData, arg: (base + k) as u16 }), script: vec![] }) {
                            Some(x) => {
                                ok = x.bad.is_none();
                                cur = x;
                            }
                            None => break,
                        }
                    }
                    if ok {
                        if let Some(x) = model.step(&cur, &Act { kind: ActKind::Op(op), script: vec![] }) {
                            cur = x;
                        }
                    }
                    out.transitions += n as u64 + 2;
                    if let Some(bad) = cur.bad {
                        let key = if bad.contains("panic") { format!("panic:ElfStream in {}", panic_site(&bad)) } else { format!("occupancy:{:?} after a failed load and {} cached ranges", op.kind, n) };
                        out.violate(key, format!("{:?} with a read fault, then {} other ranges, then {:?} again: {}", op, n, op, bad));
                        return;
                    }
                }
            }
            for sc in scripts {
                if let Some(t) = model.step(&s, &Act { kind: ActKind::Op(op), script: sc.clone() }) {
                    out.transitions += 1;
                    dig.u64(t.fp as u64);
                    if let Some(bad) = t.bad.or(s.bad.clone()) {
                        let key = if bad.contains("panic") { format!("panic:ElfStream in {}", panic_site(&bad)) } else { format!("occupancy:{:?} after {} cached ranges", op.kind, n) };
                        out.violate(key, format!("{} cached ranges, then {:?} with env script {:?}: {}", n, op, sc, bad));
                        return;
                    }
                }
            }
        }
        out.nontrivial(dig.get() ^ idx);
    }
}

// ------------------------------------------------------------------ engine-L oracles for the stream parser
/// All ops once, in a fixed order, on one freshly opened stream; compared with the slice parser
/// (C07), checked against designated ranges and the allocation bound (C08).
#[derive(Clone)]
pub struct StreamLattice {
    pub which: Which,
    /// also explore one legal reader deviation at every I/O call of open_stream
    pub open_dev: bool,
}

fn image_for_variant(bytes: &[u8]) -> Image {
    image_from_bytes("variant", bytes.to_vec(), None, &[".dynsym", ".absent", ".note.a"], 40)
}

pub fn stream_variant_check(which: Which, open_dev: bool, bytes: &[u8], out: &mut Outcome) {
    let img = image_for_variant(bytes);
    let flen = bytes.len();
    let rh = ref_headers(bytes);
    let slice = subject(|| ElfBytes::<AnyEndian>::minimal_parse(bytes).ok());
    let slice = match slice {
        Ok(s) => s,
        Err(_) => {
            out.count("slice_open_panicked (reported by C01)");
            return;
        }
    };
    let slice_digest = slice.as_ref().map(|f| open_digest_slice(f));
    // open: default environment, then (optionally) every single legal deviation
    let mut scripts: Vec<Vec<(u32, Choice)>> = vec![Vec::new()];
    if open_dev {
        let (_, st) = open_stream(&img.bytes, &[]);
        let n = st.lock().unwrap().log.len() as u32;
        for i in 0..n {
            for c in LEGAL {
                scripts.push(vec![(i, c)]);
            }
        }
    }
    let mut opened: Option<(Stream, Arc<std::sync::Mutex<EnvState>>)> = None;
    // the default environment is additionally tried with the reader standing elsewhere
    let positions: [u64; 4] = [0, 16, flen as u64, flen as u64 + 3];
    let plan: Vec<(Vec<(u32, Choice)>, u64)> = scripts.iter().map(|s| (s.clone(), 0)).chain(positions[1..].iter().map(|p| (Vec::new(), *p))).collect();
    for (si, (sc, p0)) in plan.iter().enumerate() {
        // the reader-position sweep is only informative for files that open from position 0
        if *p0 != 0 && opened.is_none() {
            continue;
        }
        arm_alloc_limit(flen);
        let (r, st) = open_stream_at(&img.bytes, sc, *p0);
        let stats = alloc::stats();
        alloc::set_limit(u64::MAX);
        out.transitions += 1;
        let log = st.lock().unwrap().log.clone();
        match r {
            Err(m) => {
                out.violate(format!("panic:ElfStream::open_stream in {}", panic_site(&m)), m);
                return;
            }
            Ok(res) => {
                match which {
                    Which::C07 => {
                        if res.is_ok() != slice_digest.is_some() {
                            out.violate(
                                "stream-vs-slice:open success differs",
                                format!("open_stream {} but minimal_parse {} (env script {:?})", if res.is_ok() { "succeeds" } else { "fails" }, if slice_digest.is_some() { "succeeds" } else { "fails" }, sc),
                            );
                            return;
                        }
                        if let Ok(s) = &res {
                            if Some(open_digest_stream(s)) != slice_digest {
                                out.violate("stream-vs-slice:headers differ", format!("ehdr/shdrs/phdrs differ (env script {:?})", sc));
                                return;
                            }
                        }
                    }
                    Which::C08 => {
                        if let Some((p, n)) = reads_outside(&log, &rh.open_ranges) {
                            out.violate("stream-bounds:open reads outside header tables", format!("read [{p}, {}) not inside {:?}", p + n as u64, rh.open_ranges));
                            return;
                        }
                        if stats.max_req > alloc_bound(flen) {
                            out.violate("stream-bounds:allocation", format!("open_stream: single allocation of {} bytes for a {}-byte stream", stats.max_req, flen));
                            return;
                        }
                        out.max_alloc = out.max_alloc.max(stats.max_req);
                    }
                    Which::C17 => {}
                }
                if si == 0 {
                    if let Ok(s) = res {
                        opened = Some((s, st));
                    }
                }
            }
        }
    }
    let (mut s, st) = match opened {
        Some(x) => x,
        None => {
            out.count("open_failed");
            return;
        }
    };
    out.count("opened");
    let f = match slice {
        Some(f) => f,
        None => return,
    };
    let empty_table = f.section_headers().map(|t| t.is_empty()).unwrap_or(false);
    let mut dig = crate::util::Fnv::new();
    for op in &img.ops {
        begin_op(&st, &[]);
        arm_alloc_limit(flen);
        let (res, pm) = run_op_stream(&mut s, &img, *op);
        let stats = alloc::stats();
        alloc::set_limit(u64::MAX);
        out.transitions += 1;
        if let Some(m) = pm {
            out.violate(format!("panic:ElfStream::{:?} in {}", op.kind, panic_site(&m)), m);
            return;
        }
        dig.u64(res.digest ^ res.ok as u64);
        match which {
            Which::C07 => {
                let compressed = match op.kind {
                    OpKind::SectionData | OpKind::AsStrtab | OpKind::AsRels | OpKind::AsRelas | OpKind::AsNotes => is_compressed(&img.shdr_pool[op.arg as usize]),
                    OpKind::SegNotes => false,
                    OpKind::Dynamic => rh.shdrs.iter().find(|h| h[1] == SHT_DYNAMIC as u64).map(|h| h[2] & SHF_COMPRESSED != 0).unwrap_or(false),
                    _ => false,
                };
                if compressed || empty_table {
                    continue;
                }
                let truth = run_op_slice(&f, &img, *op);
                if truth.panicked {
                    continue;
                }
                let strict = matches!(op.kind, OpKind::SectionData | OpKind::SymbolTable | OpKind::DynSymbolTable | OpKind::SymVer | OpKind::SegNotes);
                if truth.ok && !res.ok {
                    out.violate(format!("stream-vs-slice:{:?} fails on the stream", op.kind), format!("{:?}: slice Ok, stream Err", op));
                    return;
                }
                if truth.ok && res.ok && truth.digest != res.digest {
                    out.violate(format!("stream-vs-slice:{:?} content differs", op.kind), format!("{:?}: both Ok, different content", op));
                    return;
                }
                if !truth.ok && res.ok && strict {
                    out.violate(format!("stream-vs-slice:{:?} succeeds only on the stream", op.kind), format!("{:?}: slice Err, stream Ok", op));
                    return;
                }
            }
            Which::C08 => {
                let log = st.lock().unwrap().log.clone();
                let des = designated(&rh, &img, *op);
                if let Some((p, n)) = reads_outside(&log, &des) {
                    out.violate(format!("stream-bounds:{:?} reads outside its ranges", op.kind), format!("{:?} read [{p}, {}) outside {:?}", op, p + n as u64, des));
                    return;
                }
                if stats.max_req > alloc_bound(flen) {
                    out.violate("stream-bounds:allocation", format!("{:?}: single allocation of {} bytes for a {}-byte stream", op, stats.max_req, flen));
                    return;
                }
                out.max_alloc = out.max_alloc.max(stats.max_req);
            }
            Which::C17 => {}
        }
    }
    out.nontrivial(dig.get());
}

impl Oracle for StreamLattice {
    fn check(&self, _sk: &Skeleton, bytes: &[u8], out: &mut Outcome) {
        stream_variant_check(self.which, self.open_dev, bytes, out);
    }
}

/// C18 for the stream parser: every op on the cut stream is Err or equals the op on the whole.
pub struct StreamPrefix;
impl PrefixOracle for StreamPrefix {
    fn check(&self, _sk: &Skeleton, whole: &[u8], cut: &[u8], out: &mut Outcome) {
        let wimg = image_for_variant(whole);
        // the same header pool (the whole file's) is used for both
        let cimg = Image { name: "cut".into(), bytes: Arc::new(cut.to_vec()), shdr_pool: wimg.shdr_pool.clone(), phdr_pool: wimg.phdr_pool.clone(), names: wimg.names.clone(), ops: wimg.ops.clone() };
        let (rw, stw) = open_stream(&wimg.bytes, &[]);
        let (rc, stc) = open_stream(&cimg.bytes, &[]);
        out.transitions += 2;
        let mut c = match rc {
            Err(m) => {
                out.violate(format!("panic:ElfStream::open_stream in {}", panic_site(&m)), m);
                return;
            }
            Ok(Err(())) => {
                out.count("cut_does_not_open");
                return;
            }
            Ok(Ok(s)) => s,
        };
        let mut w = match rw {
            Ok(Ok(s)) => s,
            _ => {
                out.violate("cut-answers-where-whole-errors:ElfStream::open_stream", format!("the {}-byte cut opens but the {}-byte file does not", cut.len(), whole.len()));
                return;
            }
        };
        if open_digest_stream(&c) != open_digest_stream(&w) {
            out.violate("different-answer:ElfStream::open_stream", format!("headers of the {}-byte cut differ from those of the {}-byte file", cut.len(), whole.len()));
            return;
        }
        out.count("cut_opens");
        let mut dig = crate::util::Fnv::new();
        for op in &wimg.ops {
            begin_op(&stw, &[]);
            begin_op(&stc, &[]);
            let (rw, _) = run_op_stream(&mut w, &wimg, *op);
            let (rc, pm) = run_op_stream(&mut c, &cimg, *op);
            out.transitions += 2;
            if let Some(m) = pm {
                out.violate(format!("panic:ElfStream::{:?} in {}", op.kind, panic_site(&m)), m);
                return;
            }
            dig.u64(rc.digest ^ rc.ok as u64);
            if rc.ok && !rw.ok {
                out.violate(format!("cut-answers-where-whole-errors:ElfStream::{:?}", op.kind), format!("{:?}: Ok on the {}-byte cut, Err on the {}-byte file", op, cut.len(), whole.len()));
                return;
            }
            if rc.ok && rw.ok && rc.digest != rw.digest {
                out.violate(format!("different-answer:ElfStream::{:?}", op.kind), format!("{:?}: the {}-byte cut answers differently from the {}-byte file", op, cut.len(), whole.len()));
                return;
            }
        }
        out.nontrivial(dig.get());
    }
}

/// Opening only (for very large files): a cut that opens must show the whole file's headers.
pub struct StreamOpenPrefix;
impl PrefixOracle for StreamOpenPrefix {
    fn check(&self, _sk: &Skeleton, whole: &[u8], cut: &[u8], out: &mut Outcome) {
        let (rw, _) = open_stream(&Arc::new(whole.to_vec()), &[]);
        let (rc, _) = open_stream(&Arc::new(cut.to_vec()), &[]);
        out.transitions += 2;
        match (rc, rw) {
            (Err(m), _) => out.violate(format!("panic:ElfStream::open_stream in {}", panic_site(&m)), m),
            (Ok(Ok(c)), Ok(Ok(w))) => {
                if open_digest_stream(&c) != open_digest_stream(&w) {
                    out.violate("different-answer:ElfStream::open_stream", format!("the {}-byte cut opens with other headers (sections {}, segments {}) than the {}-byte file (sections {}, segments {})", cut.len(), c.section_headers().len(), c.segments().len(), whole.len(), w.section_headers().len(), w.segments().len()));
                }
                out.count("huge_cut_opens");
            }
            (Ok(Ok(_)), _) => out.violate("cut-answers-where-whole-errors:ElfStream::open_stream", format!("{}-byte cut", cut.len())),
            _ => out.count("huge_cut_does_not_open"),
        }
    }
}

pub fn c18_stream_spaces(tier: Tier) -> Vec<Box<dyn Space>> {
    let mut v: Vec<Box<dyn Space>> = Vec::new();
    let tiny = tiny_skeletons();
    let pick: Vec<usize> = if tier == Tier::Quick { vec![4, 3] } else { (0..8).collect() };
    for k in pick {
        v.push(Box::new(Prefixes { sk: tiny[k].clone(), oracle: StreamPrefix, label: "C18 stream parser" }));
    }
    for sk in small_shapes().into_iter().chain(extnum_shapes()) {
        v.push(Box::new(Prefixes { sk, oracle: StreamPrefix, label: "C18 stream parser" }));
    }
    // each section's body in turn laid out last (so that a cut removes bytes of exactly that construct)
    let encs: Vec<Enc> = if tier == Tier::Quick { vec![ENCS[2]] } else { ENCS.to_vec() };
    for e in encs {
        for sk in rotated_skeletons(e) {
            if sk.name.ends_with("no-phdrs") || tier == Tier::Thorough {
                v.push(Box::new(Prefixes { sk, oracle: StreamPrefix, label: "C18 stream parser" }));
            }
        }
    }
    v
}
