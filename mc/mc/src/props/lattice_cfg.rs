//! Which skeletons / deviation bounds each tier explores with engine L.
use crate::framework::*;
use crate::lattice::*;
use crate::skeleton::*;
use refmodel::image::Site;

fn all_sites(_: &Site) -> bool {
    true
}
fn header_sites(s: &Site) -> bool {
    s.group < 3000
}
fn ehdr_sites(s: &Site) -> bool {
    s.group == 0
}

pub struct LatticeBounds {
    pub text: String,
}

/// Engine-L spaces for one oracle. `light` = differential oracles that run the driver twice.
pub fn lattice_spaces<O: Oracle + Clone + 'static>(tier: Tier, oracle: O, label: &'static str) -> (Vec<Box<dyn Space>>, LatticeBounds) {
    let mut v: Vec<Box<dyn Space>> = Vec::new();
    // k <= 1 everywhere on the generated skeletons
    for sk in tiny_skeletons().into_iter().chain(small_shapes()).chain(extnum_shapes()) {
        v.push(Box::new(Single { p: PreparedSkeleton::new(sk, &all_sites), oracle: oracle.clone(), label }));
    }
    // wide objects (110 sections with every special kind twice, 204 segments): k <= 1 on the file
    // header, shdr[0], the special sections' headers and the non-PT_LOAD program headers
    for (i, sk) in wide_shapes().into_iter().enumerate() {
        // quick: ELF64-LSB and ELF32-MSB
        if tier == Tier::Quick && !(i / 2 == 1 || i / 2 == 2) {
            continue;
        }
        v.push(Box::new(Single { p: PreparedSkeleton::new(sk, &all_sites), oracle: oracle.clone(), label }));
    }
    // the tiny-full objects under 14 machines with ABI quirks: k <= 1 on every header-table field
    for (i, sk) in machine_variants().into_iter().enumerate() {
        // quick: the two 64-bit encodings under the first eight machines, and the 8-byte-.hash objects
        let n_plain = 4 * QUIRK_MACHINES.len();
        if tier == Tier::Quick && i < n_plain && !(i / QUIRK_MACHINES.len() >= 2 && i % QUIRK_MACHINES.len() < 8) {
            continue;
        }
        v.push(Box::new(Single { p: PreparedSkeleton::new(sk, &header_sites), oracle: oracle.clone(), label }));
    }
    // the tiny-full objects as ET_REL / ET_EXEC / ET_CORE: k <= 1 on every header-table field
    for (i, sk) in filetype_variants().into_iter().enumerate() {
        // quick: ELF32-MSB and ELF64-LSB
        if tier == Tier::Quick && !(i / 3 == 1 || i / 3 == 2) {
            continue;
        }
        v.push(Box::new(Single { p: PreparedSkeleton::new(sk, &header_sites), oracle: oracle.clone(), label }));
    }
    // samples: k <= 1 on the file header (quick) / all header and table fields (thorough)
    for sk in sample_skeletons() {
        let p = if tier == Tier::Quick { PreparedSkeleton::new(sk, &ehdr_sites) } else { PreparedSkeleton::new(sk, &header_sites) };
        v.push(Box::new(Single { p, oracle: oracle.clone(), label }));
    }
    // k = 2
    for sk in extnum_shapes().into_iter().chain(small_shapes()) {
        // quick: the unterminated-dynamic shape takes part with k <= 1 only (its header pairs equal those of phdrs-only)
        if tier == Tier::Quick && sk.name.starts_with("phdrs-only-unterminated") {
            continue;
        }
        let p = PreparedSkeleton::new(sk, &header_sites);
        let pairs = if tier == Tier::Quick { coupled_pairs(&p, true).into_iter().filter(|(i, j)| p.sk.sites[*i].group == 0 && (p.sk.sites[*j].group == 0 || p.sk.sites[*j].group == 1000)).collect() } else { all_header_pairs(&p) };
        v.push(Box::new(Pairs::new(p, pairs, oracle.clone(), label)));
    }
    if tier == Tier::Thorough {
        // every tiny-full skeleton: all coupled pairs
        for sk in tiny_skeletons() {
            let p = PreparedSkeleton::new(sk, &all_sites);
            let pairs = coupled_pairs(&p, false);
            v.push(Box::new(Pairs::new(p, pairs, oracle.clone(), label)));
        }
        // k = 3 on the fields that locate and size the header tables (incl. the shdr[0] escapes)
        const LOCATORS: [&str; 10] = ["ehdr.e_phoff", "ehdr.e_shoff", "ehdr.e_phentsize", "ehdr.e_phnum", "ehdr.e_shentsize", "ehdr.e_shnum", "ehdr.e_shstrndx", "shdr[0].sh_size", "shdr[0].sh_link", "shdr[0].sh_info"];
        for sk in extnum_shapes().into_iter().chain(small_shapes().into_iter().filter(|s| s.name.starts_with("shdrs-only"))) {
            let p = PreparedSkeleton::new(sk, &header_sites);
            let t = triples_of(&p, &LOCATORS);
            v.push(Box::new(Triples::new(p, t, oracle.clone(), label)));
        }
    }
    let text = match tier {
        Tier::Quick => "k<=1: every site (header, table and deep body sites) of 8 tiny-full + 12 small + 4 extended-numbering skeletons, the header / special-section / non-PT_LOAD segment sites of 4 wide objects (110 sections with every special kind twice, 204 segments; with and without section headers), every header-table field of the 2 64-bit linker-order tiny-full objects under 8 e_machine values with processor-specific ABI deviations and of 6 objects carrying the 8-byte-word .hash of 64-bit Alpha / s390x (thorough: 4 encodings x 14 machines), every header-table field of 2 tiny-full objects as ET_REL / ET_EXEC / ET_CORE, ehdr sites of the 10 samples; k=2: ehdr x (ehdr | shdr[0]) pairs of the small and extended-numbering shapes",
        Tier::Thorough => "k<=1: as quick plus all 8 wide objects and every shdr/phdr field of the 10 samples; k=2: all header-field pairs of the small and extended-numbering shapes, and all coupled pairs (same header; ehdr x any header; body word x own header) of all 8 tiny-full skeletons; k=3: all triples of the 10 table-locating fields (e_phoff, e_shoff, e_*entsize, e_*num, e_shstrndx, shdr[0].sh_size/sh_link/sh_info) of the extended-numbering and shdrs-only shapes",
    };
    (v, LatticeBounds { text: text.to_string() })
}
