//! C20 — alternative access paths to the same data agree.
use super::common::*;
use super::slice_oracles::panic_site;
use crate::alloc::subject;
use crate::framework::*;
use crate::util::*;
use elf::abi;
use elf::dynamic::DynamicTable;
use elf::section::SectionHeader;
use elf::segment::ProgramHeader;
use elf::string_table::StringTable;
use elf::symbol::SymbolTable;
use elf::{ElfBytes, ElfStream};
use refmodel::hashes::*;
use refmodel::image::*;
use refmodel::layout::*;
use serde_json::{json, Value};
use std::io::Cursor;

const SYMTAB: u64 = 1;
const DYNSYM: u64 = 2;
const DYNAMIC: u64 = 4;
const HASH: u64 = 8;
const GNUHASH: u64 = 16;
const PTDYN: u64 = 32;

struct Obj {
    bytes: Vec<u8>,
    dyn_names: Vec<Vec<u8>>,
    symoffset: usize,
}

/// Build an object with the given subset of common sections; `rot` rotates the section order;
/// `link` (if any) overrides sh_link of .symtab and .dynsym.
fn object(enc: Enc, subset: u64, rot: usize, link: Option<u32>) -> Obj {
    object_ext(enc, subset, rot, link, None)
}

/// `first`: build WITHOUT the leading null section header and put the named section at index 0
fn object_ext(enc: Enc, subset: u64, rot: usize, link: Option<u32>, first: Option<&[u8]>) -> Obj {
    let symsz = layout(Kind::Sym, enc.class).size as u64;
    let dynsz = layout(Kind::Dyn, enc.class).size as u64;
    let g = build_gnu(enc, &[b"".to_vec(), b"loc".to_vec()], &[b"memset".to_vec(), b"ab".to_vec(), b"bA".to_vec()], 2, 1, 5);
    let dyn_names = g.sym_names.clone();
    let (dynstr, doffs) = build_strtab(&dyn_names);
    let sym_names: Vec<Vec<u8>> = vec![b"".to_vec(), b"main".to_vec(), b"memset".to_vec()];
    let (strtab, soffs) = build_strtab(&sym_names);
    let mut dynamic = Vec::new();
    for (t, v) in [(1u64, 1u64), (5, 0x300), (0, 0)] {
        dynamic.extend_from_slice(&encode(Kind::Dyn, enc, &[t, v], 0));
    }
    let mut secs: Vec<Sec> = vec![Sec::new(b".text", SHT_PROGBITS, vec![0x90; 6])];
    if subset & DYNSYM != 0 {
        secs.push(Sec::new(b".dynsym", SHT_DYNSYM, build_symtab(enc, &doffs)).entsize(symsz));
        secs.push(Sec::new(b".dynstr", SHT_STRTAB, dynstr.clone()));
    }
    if subset & HASH != 0 {
        // the declared entry size of a hash section is not part of its format: it varies with the order
        // in every other order the table has two chain slots more than .dynsym has symbols (nchain is
        // the hash section's own business: it does not resize the symbol table)
        let mut hashed_names = dyn_names.clone();
        if rot % 2 == 1 {
            hashed_names.push(b"phantom_1".to_vec());
            hashed_names.push(b"phantom_2".to_vec());
        }
        secs.push(Sec::new(b".hash", SHT_HASH, build_sysv(enc.order, &hashed_names, 2)).entsize([4, 0, 8, 1, 16][rot % 5]));
    }
    if subset & GNUHASH != 0 {
        secs.push(Sec::new(b".gnu.hash", SHT_GNU_HASH, g.section.clone()).entsize([0, 4, 8][rot % 3]));
    }
    if subset & DYNAMIC != 0 {
        secs.push(Sec::new(b".dynamic", SHT_DYNAMIC, dynamic.clone()).entsize(dynsz));
    }
    if subset & SYMTAB != 0 {
        secs.push(Sec::new(b".symtab", SHT_SYMTAB, build_symtab(enc, &soffs)).entsize(symsz));
        secs.push(Sec::new(b".strtab", SHT_STRTAB, strtab.clone()));
    }
    secs.push(Sec::new(b".comment", SHT_PROGBITS, b"c\0".to_vec()));
    let n = secs.len();
    // orders: 9 rotations, and the same 9 rotations of the reversed list
    if rot >= 9 {
        secs.reverse();
    }
    secs.rotate_left(rot % 9 % n);
    if let Some(f) = first {
        if let Some(p) = secs.iter().position(|x| x.name == f) {
            let s = secs.remove(p);
            secs.insert(0, s);
        }
    }
    let base: u32 = if first.is_some() { 0 } else { 1 };
    let pos = |name: &[u8], secs: &Vec<Sec>| secs.iter().position(|x| x.name == name).map(|p| p as u32 + base).unwrap_or(0);
    let (dynsym_i, dynstr_i, strtab_i) = (pos(b".dynsym", &secs), pos(b".dynstr", &secs), pos(b".strtab", &secs));
    let dynamic_i = pos(b".dynamic", &secs) as usize;
    for s in secs.iter_mut() {
        match s.name.as_slice() {
            b".dynsym" => s.link = link.unwrap_or(dynstr_i),
            b".symtab" => s.link = link.unwrap_or(strtab_i),
            b".hash" | b".gnu.hash" => s.link = dynsym_i,
            b".dynamic" => s.link = dynstr_i,
            _ => {}
        }
    }
    let mut spec = Spec::new(enc, TableOrder::Linker);
    spec.secs = secs;
    spec.no_null_section = first.is_some();
    if subset & PTDYN != 0 {
        // PT_DYNAMIC designates the same bytes as .dynamic (which exists whenever PT_DYNAMIC does)
        spec.segs = vec![
            Seg { p_type: PT_LOAD, flags: 5, vaddr: 0, paddr: 0, align: 16, memsz_extra: 0, target: SegTarget::Section(1) },
            Seg { p_type: PT_DYNAMIC, flags: 6, vaddr: 0, paddr: 0, align: 8, memsz_extra: 24, target: SegTarget::Section(dynamic_i) },
        ];
    }
    Obj { bytes: build(&spec).bytes, dyn_names, symoffset: g.symoffset }
}

fn dig_symtab<E: EndianParse>(t: &SymbolTable<'_, E>, s: &StringTable<'_>) -> u64 {
    let mut f = Fnv::new();
    f.u64(t.len() as u64);
    for y in t.iter() {
        f.u64(y.st_name as u64);
        f.u64(y.st_value);
        f.u64(y.st_size);
        f.u64(y.st_shndx as u64);
        f.u64(y.st_info as u64);
        match s.get_raw(y.st_name as usize) {
            Ok(b) => f.bytes(b),
            Err(_) => f.u64(0xeeee),
        }
    }
    // the string table itself, by content
    let mut off = 0usize;
    let mut guard = 0;
    while let Ok(b) = s.get_raw(off) {
        f.bytes(b);
        off += b.len() + 1;
        guard += 1;
        if guard > 4096 {
            break;
        }
    }
    f.get()
}
fn dig_dyn<E: EndianParse>(t: &DynamicTable<'_, E>) -> u64 {
    let mut f = Fnv::new();
    f.u64(t.len() as u64);
    for d in t.iter() {
        f.u64(d.d_tag as u64);
        f.u64(d.d_val());
    }
    f.get()
}

#[derive(Debug, PartialEq, Eq)]
struct Paths {
    common: Option<(Option<u64>, Option<u64>, Option<u64>, bool, bool)>,
    symtab: Option<Option<u64>>,
    dynsym: Option<Option<u64>>,
    dynamic: Option<Option<u64>>,
    sysv_finds: Vec<Option<Option<usize>>>,
    gnu_finds: Vec<Option<Option<usize>>>,
}

fn observe(bytes: &[u8], names: &[Vec<u8>]) -> Result<Option<Paths>, String> {
    subject(|| {
        let f = ElfBytes::<AnyEndian>::minimal_parse(bytes).ok()?;
        let mut sysv_finds = Vec::new();
        let mut gnu_finds = Vec::new();
        let common = f.find_common_data().ok().map(|c| {
            let st = match (&c.symtab, &c.symtab_strs) {
                (Some(t), Some(s)) => Some(dig_symtab(t, s)),
                _ => None,
            };
            let ds = match (&c.dynsyms, &c.dynsyms_strs) {
                (Some(t), Some(s)) => Some(dig_symtab(t, s)),
                _ => None,
            };
            if let (Some(t), Some(s)) = (&c.dynsyms, &c.dynsyms_strs) {
                for n in names {
                    sysv_finds.push(c.sysv_hash.as_ref().map(|h| h.find(n, t, s).ok().flatten().map(|x| x.0)));
                    gnu_finds.push(c.gnu_hash.as_ref().map(|h| h.find(n, t, s).ok().flatten().map(|x| x.0)));
                }
            }
            (st, ds, c.dynamic.as_ref().map(dig_dyn), c.sysv_hash.is_some(), c.gnu_hash.is_some())
        });
        Some(Paths {
            common,
            symtab: f.symbol_table().ok().map(|o| o.map(|(t, s)| dig_symtab(&t, &s))),
            dynsym: f.dynamic_symbol_table().ok().map(|o| o.map(|(t, s)| dig_symtab(&t, &s))),
            dynamic: f.dynamic().ok().map(|o| o.map(|t| dig_dyn(&t))),
            sysv_finds,
            gnu_finds,
        })
    })
}

struct Presence {
    all_rotations: bool,
}
impl Presence {
    fn dims(&self) -> [u64; 3] {
        [64, 4, 18]
    }
}
impl Space for Presence {
    fn name(&self) -> String {
        format!("objects with every subset of {{.symtab, .dynsym, .dynamic, .hash, .gnu.hash, PT_DYNAMIC}} (PT_DYNAMIC only together with .dynamic) x 4 encodings x {} section orders (all rotations of the list and of its reverse; the declared sh_entsize of .hash cycles through {{4,0,8,1,16}}, of .gnu.hash through {{0,4,8}}): find_common_data vs symbol_table / dynamic_symbol_table / dynamic, hash tables by find() on every name vs ground truth; twin with e_shoff = 0 for the PT_DYNAMIC path", 18)
    }
    fn size(&self) -> u64 {
        product(&self.dims())
    }
    fn describe(&self, idx: u64) -> Value {
        let d = unmix(idx, &self.dims());
        let names: Vec<&str> = [(SYMTAB, ".symtab"), (DYNSYM, ".dynsym"), (DYNAMIC, ".dynamic"), (HASH, ".hash"), (GNUHASH, ".gnu.hash"), (PTDYN, "PT_DYNAMIC")].iter().filter(|(b, _)| d[0] & b != 0).map(|(_, n)| *n).collect();
        json!({"present": names, "encoding": ENCS[d[1] as usize].name(), "rotation": d[2]})
    }
    fn run(&self, idx: u64, out: &mut Outcome) {
        let d = unmix(idx, &self.dims());
        let subset = d[0];
        if subset & PTDYN != 0 && subset & DYNAMIC == 0 {
            out.count("PT_DYNAMIC_without_.dynamic_is_outside_the_property's_scope");
            return;
        }
        let enc = ENCS[d[1] as usize];
        let o = object(enc, subset, d[2] as usize, None);
        let mut qnames: Vec<Vec<u8>> = o.dyn_names.clone();
        qnames.extend([b"absent".to_vec(), b"a".to_vec(), b"memse".to_vec()]);
        let ctx = format!("{} subset {:#08b} rotation {}", enc.name(), subset, d[2]);
        let p = match observe(&o.bytes, &qnames) {
            Err(m) => {
                out.violate(format!("panic:ElfBytes in {}", panic_site(&m)), format!("{ctx}: {m}"));
                return;
            }
            Ok(None) => {
                out.violate("generated-object-does-not-open", ctx);
                return;
            }
            Ok(Some(p)) => p,
        };
        out.transitions += 4 + 2 * qnames.len() as u64;
        let c = match &p.common {
            None => {
                // an object whose hash sections declare an unusual entry size may be rejected as a whole
                // (loudly); what may not happen is that the discovery and the targeted paths disagree
                let unusual = (subset & HASH != 0 && ![4u64, 0][..].contains(&[4, 0, 8, 1, 16][d[2] as usize % 5])) || (subset & GNUHASH != 0 && d[2] % 3 == 2);
                if unusual {
                    out.count("rejected_with_unusual_hash_entsize");
                } else {
                    out.violate("find_common_data:fails on a well-formed object", ctx);
                }
                return;
            }
            Some(c) => c,
        };
        let want = |bit: u64| subset & bit != 0;
        let checks: [(&str, Option<u64>, &Option<Option<u64>>, bool); 3] = [("symtab", c.0, &p.symtab, want(SYMTAB)), ("dynsyms", c.1, &p.dynsym, want(DYNSYM)), ("dynamic", c.2, &p.dynamic, want(DYNAMIC))];
        for (name, common, targeted, present) in checks {
            match targeted {
                None => out.violate(format!("targeted-accessor-fails:{name}"), ctx.clone()),
                Some(t) => {
                    if common != *t {
                        out.violate(format!("common-vs-targeted:{name}"), format!("{ctx}: find_common_data gives {:?}, the targeted accessor {:?}", common.is_some(), t.is_some()));
                    }
                    if t.is_some() != present {
                        out.violate(format!("presence:{name}"), format!("{ctx}: accessor reports {}", if t.is_some() { "a table that is not there" } else { "no table although there is one" }));
                    }
                }
            }
        }
        if c.3 != want(HASH) || c.4 != want(GNUHASH) {
            out.violate("presence:hash tables", format!("{ctx}: sysv {} gnu {}", c.3, c.4));
        }
        // hash tables found by the one-pass discovery answer like the ground truth
        if want(DYNSYM) {
            for (k, n) in qnames.iter().enumerate() {
                let truth_sysv = o.dyn_names.iter().enumerate().skip(1).find(|(_, x)| *x == n).map(|(i, _)| i);
                let truth_gnu = o.dyn_names.iter().enumerate().skip(o.symoffset).find(|(_, x)| *x == n).map(|(i, _)| i);
                if want(HASH) && p.sysv_finds.get(k) != Some(&Some(truth_sysv)) {
                    out.violate("common-hash-table:sysv", format!("{ctx}: find({:?}) = {:?}, ground truth {:?}", String::from_utf8_lossy(n), p.sysv_finds.get(k), truth_sysv));
                }
                if want(GNUHASH) && p.gnu_finds.get(k) != Some(&Some(truth_gnu)) {
                    out.violate("common-hash-table:gnu", format!("{ctx}: find({:?}) = {:?}, ground truth {:?}", String::from_utf8_lossy(n), p.gnu_finds.get(k), truth_gnu));
                }
            }
        }
        // twin without section headers: PT_DYNAMIC must lead to the same table
        if want(PTDYN) {
            let mut twin = o.bytes.clone();
            let l = layout(Kind::Ehdr, enc.class);
            let fld = &l.fields[field_index(Kind::Ehdr, enc.class, "e_shoff")];
            put(&mut twin, fld.off, fld.width, enc.order, 0);
            match observe(&twin, &[]) {
                Ok(Some(t)) => {
                    out.transitions += 2;
                    if t.dynamic != p.dynamic {
                        out.violate("section-vs-segment:dynamic()", format!("{ctx}: .dynamic via the section differs from PT_DYNAMIC via the segment"));
                    }
                    if t.common.as_ref().map(|c| c.2) != Some(c.2) {
                        out.violate("section-vs-segment:find_common_data", format!("{ctx}: CommonElfData.dynamic differs between the section and the segment path"));
                    }
                    // the stream parser's PT_DYNAMIC path
                    let st = subject(|| ElfStream::<AnyEndian, _>::open_stream(Cursor::new(twin.clone())).ok().and_then(|mut s| s.dynamic().ok().map(|o| o.map(|t| dig_dyn(&t)))));
                    if let Ok(Some(x)) = st {
                        if Some(x) != p.dynamic {
                            out.violate("section-vs-segment:ElfStream::dynamic()", ctx.clone());
                        }
                    }
                }
                Ok(None) => out.violate("twin-does-not-open", ctx.clone()),
                Err(m) => out.violate(format!("panic:ElfBytes in {}", panic_site(&m)), m),
            }
        }
        let mut f = Fnv::new();
        f.u64(c.0.unwrap_or(1) ^ c.1.unwrap_or(2) ^ c.2.unwrap_or(3));
        f.u64(idx);
        out.nontrivial(f.get());
    }
}

/// Objects written without the leading null section header: each common section in turn sits at
/// section index 0.
struct NoNull;
const FIRSTS: [&[u8]; 7] = [b".symtab", b".dynsym", b".dynamic", b".hash", b".gnu.hash", b".strtab", b".text"];
impl Space for NoNull {
    fn name(&self) -> String {
        "objects without a null section header, with .symtab / .dynsym / .dynamic / .hash / .gnu.hash / .strtab / .text in turn at section index 0 x 4 encodings x 3 rotations: find_common_data vs targeted accessors vs ground truth".into()
    }
    fn size(&self) -> u64 {
        7 * 4 * 3
    }
    fn describe(&self, idx: u64) -> Value {
        let d = unmix(idx, &[7, 4, 3]);
        json!({"section_at_index_0": String::from_utf8_lossy(FIRSTS[d[0] as usize]), "encoding": ENCS[d[1] as usize].name(), "rotation": d[2] * 2})
    }
    fn run(&self, idx: u64, out: &mut Outcome) {
        let d = unmix(idx, &[7, 4, 3]);
        let enc = ENCS[d[1] as usize];
        let o = object_ext(enc, 31, d[2] as usize * 2, None, Some(FIRSTS[d[0] as usize]));
        let ctx = format!("{} no null section, index 0 = {}, rotation {}", enc.name(), String::from_utf8_lossy(FIRSTS[d[0] as usize]), d[2] * 2);
        let mut qnames: Vec<Vec<u8>> = o.dyn_names.clone();
        qnames.push(b"absent".to_vec());
        out.transitions += 4;
        match observe(&o.bytes, &qnames) {
            Err(m) => out.violate(format!("panic:ElfBytes in {}", panic_site(&m)), format!("{ctx}: {m}")),
            Ok(None) => out.violate("generated-object-does-not-open", ctx),
            Ok(Some(p)) => match &p.common {
                None => out.violate("find_common_data:fails on a well-formed object", ctx),
                Some(c) => {
                    for (name, common, targeted) in [("symtab", c.0, &p.symtab), ("dynsyms", c.1, &p.dynsym), ("dynamic", c.2, &p.dynamic)] {
                        match targeted {
                            Some(Some(t)) if common == Some(*t) => {}
                            _ => out.violate(format!("common-vs-targeted:{name}"), format!("{ctx}: find_common_data present={:?}, targeted accessor {:?}", common.is_some(), targeted.map(|x| x.is_some()))),
                        }
                    }
                    if !c.3 || !c.4 {
                        out.violate("presence:hash tables", format!("{ctx}: sysv {} gnu {}", c.3, c.4));
                    }
                    for (k, n) in qnames.iter().enumerate() {
                        let truth_sysv = o.dyn_names.iter().enumerate().skip(1).find(|(_, x)| *x == n).map(|(i, _)| i);
                        let truth_gnu = o.dyn_names.iter().enumerate().skip(o.symoffset).find(|(_, x)| *x == n).map(|(i, _)| i);
                        if p.sysv_finds.get(k) != Some(&Some(truth_sysv)) || p.gnu_finds.get(k) != Some(&Some(truth_gnu)) {
                            out.violate("common-hash-table:lookup", format!("{ctx}: find({:?}) sysv {:?} gnu {:?}, ground truth {:?} / {:?}", String::from_utf8_lossy(n), p.sysv_finds.get(k), p.gnu_finds.get(k), truth_sysv, truth_gnu));
                        }
                    }
                    out.nontrivial(idx ^ c.0.unwrap_or(0));
                }
            },
        }
    }
}

/// sh_link of .symtab / .dynsym pointing at every section index: both paths must agree.
struct Links;
impl Space for Links {
    fn name(&self) -> String {
        "full object (all six constructs): sh_link of .symtab and .dynsym := every section index 0..=n+1 x 4 encodings x 3 rotations: find_common_data and the targeted accessors must agree (both fail, or both give the same tables)".into()
    }
    fn size(&self) -> u64 {
        14 * 4 * 3
    }
    fn describe(&self, idx: u64) -> Value {
        let d = unmix(idx, &[14, 4, 3]);
        json!({"sh_link": d[0], "encoding": ENCS[d[1] as usize].name(), "rotation": d[2] * 3})
    }
    fn run(&self, idx: u64, out: &mut Outcome) {
        let d = unmix(idx, &[14, 4, 3]);
        let enc = ENCS[d[1] as usize];
        let o = object(enc, 63, d[2] as usize * 3, Some(d[0] as u32));
        let ctx = format!("{} sh_link := {} rotation {}", enc.name(), d[0], d[2] * 3);
        out.transitions += 3;
        match observe(&o.bytes, &[]) {
            Err(m) => out.violate(format!("panic:ElfBytes in {}", panic_site(&m)), format!("{ctx}: {m}")),
            Ok(None) => out.violate("generated-object-does-not-open", ctx),
            Ok(Some(p)) => {
                match (&p.common, &p.symtab, &p.dynsym) {
                    (Some(c), Some(s), Some(dy)) => {
                        if c.0 != *s || c.1 != *dy {
                            out.violate("common-vs-targeted:link", format!("{ctx}: tables differ between find_common_data and the targeted accessors"));
                        }
                        out.nontrivial(idx ^ c.0.unwrap_or(0) ^ c.1.unwrap_or(0));
                    }
                    (None, s, dy) => {
                        // the one-pass discovery fails: at least one targeted accessor must fail as well
                        if s.is_some() && dy.is_some() {
                            out.violate("common-fails-but-targeted-succeed:link", ctx);
                        }
                        out.count("both_paths_fail");
                    }
                    (Some(_), _, _) => out.violate("common-succeeds-but-targeted-fails:link", ctx),
                }
            }
        }
    }
}

/// by-name lookup == first section whose name string equals the query
struct ByName {
    nsec: u32,
}
const NAMES: [&[u8]; 8] = [b".a", b".ab", b"b.a", b"", b"\xff\xfe", b".a.long", b".abc", b".a\x01"];
const QUERIES: [&str; 10] = [".a", ".ab", "b.a", "", ".a.long", ".abc", ".", "a", ".absent", ".a\u{1}"];
impl Space for ByName {
    fn name(&self) -> String {
        format!("section_header_by_name on objects with {} sections whose names range over all {}^{} assignments of {{.a, .ab, b.a, \"\", non-UTF-8, .a.long, .abc, .a+0x01, offset past the table}} x 4 encodings; 10 queries; both parsers", self.nsec, NAMES.len() + 1, self.nsec)
    }
    fn size(&self) -> u64 {
        ((NAMES.len() + 1) as u64).pow(self.nsec) * 4
    }
    fn describe(&self, idx: u64) -> Value {
        let a = idx / 4;
        let b = (NAMES.len() + 1) as u64;
        let names: Vec<String> = (0..self.nsec).map(|i| {
            let k = ((a / b.pow(i)) % b) as usize;
            if k < NAMES.len() { String::from_utf8_lossy(NAMES[k]).to_string() } else { "<sh_name past the table>".into() }
        }).collect();
        json!({"encoding": ENCS[(idx % 4) as usize].name(), "section_names": names})
    }
    fn run(&self, idx: u64, out: &mut Outcome) {
        let enc = ENCS[(idx % 4) as usize];
        let a = idx / 4;
        let b = (NAMES.len() + 1) as u64;
        let choice: Vec<usize> = (0..self.nsec).map(|i| ((a / b.pow(i)) % b) as usize).collect();
        let mut spec = Spec::new(enc, TableOrder::TablesFirst);
        for (i, k) in choice.iter().enumerate() {
            let nm: &[u8] = if *k < NAMES.len() { NAMES[*k] } else { b".placeholder" };
            spec.secs.push(Sec::new(nm, SHT_PROGBITS, vec![i as u8 + 1; 3]).flags(i as u64 + 1));
        }
        let mut built = build(&spec);
        for (i, k) in choice.iter().enumerate() {
            if *k >= NAMES.len() {
                built.patch(&format!("shdr[{}].sh_name", i + 1), 0xfff0);
            }
        }
        // ground truth from the bytes: section index -> name string (None when the name offset has no
        // terminated, valid UTF-8 string in the name table)
        let nsec_total = built.shnum;
        let (st_off, st_size) = built.sec_range(built.shstrndx);
        let shsz = layout(Kind::Shdr, enc.class).size;
        let name_offsets: Vec<usize> = (0..nsec_total).map(|i| refmodel::layout::get(&built.bytes, built.shoff + i * shsz, 4, enc.order) as usize).collect();
        let truth_of = |bytes: &[u8]| -> Vec<Option<String>> {
            let tab = &bytes[st_off as usize..(st_off + st_size) as usize];
            name_offsets
                .iter()
                .map(|o| {
                    if *o >= tab.len() {
                        return None;
                    }
                    let e = tab[*o..].iter().position(|x| *x == 0)?;
                    std::str::from_utf8(&tab[*o..*o + e]).ok().map(|s| s.to_string())
                })
                .collect()
        };
        let mut dig = Fnv::new();
        // the same object once more with the section-name table announced through the SHN_XINDEX
        // escape (e_shstrndx = 0xffff, shdr[0].sh_link = index, shdr[0].sh_info = another valid index)
        let strndx = built.shstrndx as u64;
        let mut escaped = built.bytes.clone();
        {
            let site = |r: &str| built.sites.iter().find(|s| s.role == r).unwrap_or_else(|| panic!("no site {r}")).clone();
            for (r, v) in [("ehdr.e_shstrndx", 0xffffu64), ("shdr[0].sh_link", strndx), ("shdr[0].sh_info", 1)] {
                let st = site(r);
                refmodel::layout::put(&mut escaped, st.off, st.width, enc.order, v);
            }
        }
        // and once with a name table whose first byte is not NUL: offset 0 then names a real string
        let mut no_nul = built.bytes.clone();
        no_nul[st_off as usize] = b'Q';
        for (variant, bytes) in [("", &built.bytes), (" (name table through SHN_XINDEX)", &escaped), (" (name table without a leading NUL)", &no_nul)] {
            let truth = truth_of(bytes);
            // a query with an interior NUL can never equal a section name: it spells out adjacent entries
            let mut queries: Vec<String> = QUERIES.iter().map(|s| s.to_string()).collect();
            queries.extend(truth.iter().flatten().cloned());
            for w in truth.windows(2) {
                if let (Some(a), Some(b)) = (&w[0], &w[1]) {
                    queries.push(format!("{a}\0{b}"));
                    queries.push(format!("{a}\0"));
                }
            }
        for q in queries.iter().map(|s| s.as_str()) {
            let want = truth.iter().position(|t| t.as_deref() == Some(q));
            out.transitions += 2;
            let slice = subject(|| ElfBytes::<AnyEndian>::minimal_parse(bytes).ok().and_then(|f| f.section_header_by_name(q).ok()).map(|o| o.map(|h| h.sh_flags)));
            let stream = subject(|| ElfStream::<AnyEndian, _>::open_stream(Cursor::new(bytes.clone())).ok().and_then(|mut f| f.section_header_by_name(q).ok().map(|o| o.map(|h| h.sh_flags))));
            for (who, r) in [("ElfBytes", slice), ("ElfStream", stream)] {
                match r {
                    Err(m) => out.violate(format!("panic:{who}::section_header_by_name in {}", panic_site(&m)), m),
                    Ok(None) => out.violate(format!("by-name-errors:{who}"), format!("{}{variant} names {:?} query {:?}: lookup returned an error", enc.name(), truth, q)),
                    Ok(Some(got)) => {
                        // sections are identified by their sh_flags tag (index for 1..=nsec)
                        let gi = got.map(|f| if f == 0 { usize::MAX } else { f as usize });
                        let wi = want.map(|w| if w == 0 || w > self.nsec as usize { usize::MAX } else { w });
                        if gi != wi {
                            out.violate(format!("by-name-wrong-section:{who}"), format!("{}{variant} names {:?} query {:?}: got section tag {:?}, the first section with that name is {:?}", enc.name(), truth, q, gi, wi));
                        }
                        dig.u64(gi.unwrap_or(0) as u64);
                    }
                }
            }
        }
        }
        out.nontrivial(dig.get() ^ idx);
    }
}

/// typed views are refused iff the type does not match (every exported SHT_* / PT_* value +-1)
struct TypeGate;
include!(concat!(env!("OUT_DIR"), "/abi_consts.rs"));
fn type_values(prefix: &str) -> Vec<u32> {
    let mut v: Vec<u32> = Vec::new();
    for (n, _, val) in ABI_CONSTS {
        if n.starts_with(prefix) && *val >= 0 && *val <= u32::MAX as i128 {
            for d in [-1i128, 0, 1] {
                let x = *val + d;
                if x >= 0 && x <= u32::MAX as i128 {
                    v.push(x as u32);
                }
            }
        }
    }
    v.sort();
    v.dedup();
    v
}
impl Space for TypeGate {
    fn name(&self) -> String {
        "typed views x sh_type in every exported SHT_* value +-1 and p_type in every exported PT_* value +-1 (valid range, well-formed bytes): refused iff the type does not match; both parsers; 4 encodings".into()
    }
    fn size(&self) -> u64 {
        4
    }
    fn describe(&self, idx: u64) -> Value {
        json!({"encoding": ENCS[idx as usize].name(), "sh_types": type_values("SHT_").len(), "p_types": type_values("PT_").len()})
    }
    fn run(&self, idx: u64, out: &mut Outcome) {
        let enc = ENCS[idx as usize];
        let o = object(enc, 63, 0, None);
        let f = ElfBytes::<AnyEndian>::minimal_parse(&o.bytes).expect("object parses");
        let mut s = ElfStream::<AnyEndian, _>::open_stream(Cursor::new(o.bytes.clone())).expect("object opens");
        let text = f.section_headers().unwrap().get(1).unwrap();
        let mut n_ok = 0u64;
        for ty in type_values("SHT_") {
            let h = SectionHeader { sh_type: ty, sh_addralign: 4, ..text };
            let views: [(&str, u32, bool, bool); 4] = [
                ("section_data_as_strtab", abi::SHT_STRTAB, subject(|| f.section_data_as_strtab(&h).is_ok()).unwrap_or(false), subject(|| s.section_data_as_strtab(&h).is_ok()).unwrap_or(false)),
                ("section_data_as_rels", abi::SHT_REL, subject(|| f.section_data_as_rels(&h).is_ok()).unwrap_or(false), subject(|| s.section_data_as_rels(&h).is_ok()).unwrap_or(false)),
                ("section_data_as_relas", abi::SHT_RELA, subject(|| f.section_data_as_relas(&h).is_ok()).unwrap_or(false), subject(|| s.section_data_as_relas(&h).is_ok()).unwrap_or(false)),
                ("section_data_as_notes", abi::SHT_NOTE, subject(|| f.section_data_as_notes(&h).is_ok()).unwrap_or(false), subject(|| s.section_data_as_notes(&h).is_ok()).unwrap_or(false)),
            ];
            for (name, need, slice_ok, stream_ok) in views {
                out.transitions += 2;
                for (who, ok) in [("ElfBytes", slice_ok), ("ElfStream", stream_ok)] {
                    if ok != (ty == need) {
                        out.violate(
                            format!("type-gate:{who}::{name}"),
                            format!("{} sh_type {ty:#x}: the view is {} (it must be {})", enc.name(), if ok { "accepted" } else { "refused" }, if ty == need { "accepted" } else { "refused" }),
                        );
                    }
                    n_ok += ok as u64;
                }
            }
        }
        for ty in type_values("PT_") {
            let p = ProgramHeader { p_type: ty, p_offset: text.sh_offset, p_vaddr: 0, p_paddr: 0, p_filesz: text.sh_size, p_memsz: 0, p_flags: 4, p_align: 4 };
            out.transitions += 2;
            let a = subject(|| f.segment_data_as_notes(&p).is_ok()).unwrap_or(false);
            let b = subject(|| s.segment_data_as_notes(&p).is_ok()).unwrap_or(false);
            for (who, ok) in [("ElfBytes", a), ("ElfStream", b)] {
                if ok != (ty == abi::PT_NOTE) {
                    out.violate(format!("type-gate:{who}::segment_data_as_notes"), format!("{} p_type {ty:#x}: the view is {}", enc.name(), if ok { "accepted" } else { "refused" }));
                }
                n_ok += ok as u64;
            }
        }
        out.nontrivial(idx ^ (n_ok << 16));
    }
}

pub fn build_def(tier: Tier) -> CheckDef {
    CheckDef {
        prop: "C20",
        level: "model_checking",
        rule: "complete enumeration of generated objects (all 48 admissible presence subsets of the common constructs x encodings x section-order rotations; every sh_link target; every assignment of a name alphabet to the sections; every exported section/segment type value +-1) with cross-path oracles: one-pass discovery == targeted accessors == ground truth, by-name == first section whose name string equals the query, typed views refused iff the type mismatches, .dynamic via section == via PT_DYNAMIC. non-trivial = object on which the paths return data".into(),
        assumptions: vec!["scope as stated by the property: at most one section of each kind; a PT_DYNAMIC segment is accompanied by a .dynamic section whenever section headers exist".into()],
        spaces: vec![Box::new(Presence { all_rotations: tier == Tier::Thorough }), Box::new(Links), Box::new(NoNull), Box::new(ByName { nsec: tier.pick(4, 5) }), Box::new(TypeGate), Box::new(super::c14::ThroughFile)],
        abort_is_violation: false,
        hang_is_violation: false,
        exhaustive: true,
        bounds: json!({"by_name_sections": tier.pick(4, 5), "rotations": tier.pick(4, 9)}),
    }
}
