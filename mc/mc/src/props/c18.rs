//! C18 — a truncated file yields errors or unchanged answers, never different answers.
use super::slice_oracles::PrefixCompare;
use crate::framework::*;
use crate::lattice::Prefixes;
use crate::skeleton::*;
use serde_json::{json, Value};

/// Files with huge header tables (0x10010 program headers / 0xff20 sections, extended numbering):
/// cuts at a boundary alphabet of positions (table starts and ends, entry boundaries +-1, middle).
struct HugeTables;
impl Space for HugeTables {
    fn name(&self) -> String {
        "files with 0x10010 program headers and 0xff20 section headers (extended numbering), 2 placements x 2 encodings: cuts at the start/end of each table +-1, after 1 / 4096 / 65535 entries +-1, in the middle, at EOF-1; both parsers".into()
    }
    fn size(&self) -> u64 {
        2 * 2
    }
    fn describe(&self, idx: u64) -> Value {
        json!({"encoding": refmodel::layout::ENCS[if idx % 2 == 0 { 2 } else { 1 }].name(), "placement": if idx / 2 == 0 { "ph-then-sh" } else { "sh-then-ph" }})
    }
    fn run(&self, idx: u64, out: &mut Outcome) {
        use super::c05::*;
        use refmodel::layout::{layout, Kind, ENCS};
        let enc = ENCS[if idx % 2 == 0 { 2 } else { 1 }];
        let place = if idx / 2 == 0 { Placement::PhThenSh } else { Placement::ShThenPh };
        let (nsec, nph) = (0xff20u64, 0x10010u64);
        let e = reference_encoding(nsec, nph, 2);
        let shs = layout(Kind::Shdr, enc.class).size as u64;
        let phs = layout(Kind::Phdr, enc.class).size as u64;
        let img = make(enc, nsec, nph, 2, place, &e, shs, phs);
        let l = img.bytes.len() as u64;
        let mut cuts: Vec<u64> = Vec::new();
        for (start, ent, n) in [(img.phoff, phs, nph), (img.shoff, shs, nsec)] {
            for k in [0u64, 1, 2, 4096, 65535, n - 1, n] {
                let p = start + k * ent;
                cuts.extend([p.saturating_sub(1), p, p + 1]);
            }
            cuts.push(start + (n / 2) * ent + ent / 2);
        }
        cuts.extend([l - 1, l - shs, 64, 65]);
        cuts.sort();
        cuts.dedup();
        let sk = crate::skeleton::Skeleton { name: format!("huge-tables/{}", enc.name()), enc, bytes: img.bytes, sites: Vec::new(), generated: true };
        let slice = PrefixCompare::new(false);
        let stream = super::stream_props::StreamOpenPrefix;
        for c in cuts {
            if c >= l {
                continue;
            }
            use crate::lattice::PrefixOracle;
            slice.check(&sk, &sk.bytes, &sk.bytes[..c as usize], out);
            stream.check(&sk, &sk.bytes, &sk.bytes[..c as usize], out);
        }
        out.nontrivial(idx + 1);
    }
}

/// A section-name table of more than 64 KiB whose last entries are the names that are looked up:
/// cuts around the table's start, its 64 KiB mark, the wanted names and its end.
struct BigNames;
impl Space for BigNames {
    fn name(&self) -> String {
        "objects (tables-first layout) whose .shstrtab is 66 KiB long, with .dynsym / .dynstr / .note.a named at its very end: cuts at the table start +-1, at table offsets 65535..65537, 1 / 0 bytes before each wanted name, inside it, at its terminator, at EOF-1; every query incl. by-name lookup, both parsers; 2 encodings".into()
    }
    fn size(&self) -> u64 {
        2
    }
    fn describe(&self, idx: u64) -> Value {
        json!({"encoding": refmodel::layout::ENCS[if idx == 0 { 2 } else { 1 }].name(), "name_table_bytes": "about 66 KiB"})
    }
    fn run(&self, idx: u64, out: &mut Outcome) {
        use refmodel::hashes::{build_strtab, build_symtab};
        use refmodel::image::*;
        use refmodel::layout::*;
        let enc = ENCS[if idx == 0 { 2 } else { 1 }];
        let symsz = layout(Kind::Sym, enc.class).size as u64;
        let (dynstr, offs) = build_strtab(&[b"".to_vec(), b"f".to_vec()]);
        let note = refmodel::notes::build_notes(enc.order, 4, &[refmodel::notes::NoteSpec { n_type: 3, name: b"GNU\0".to_vec(), desc: vec![7; 8] }], 0);
        let long: Vec<u8> = (0..66_000usize).map(|i| b'a' + (i % 26) as u8).collect();
        let mut spec = Spec::new(enc, TableOrder::TablesFirst);
        spec.secs = vec![
            Sec::new(&long, SHT_PROGBITS, vec![1, 2, 3]),
            Sec::new(b".dynsym", SHT_DYNSYM, build_symtab(enc, &offs)).link(3).info(1).entsize(symsz),
            Sec::new(b".dynstr", SHT_STRTAB, dynstr),
            Sec::new(b".note.a", SHT_NOTE, note).addralign(4),
        ];
        let b = build(&spec);
        let (start, size) = b.sec_range(b.shstrndx);
        let (start, end) = (start as usize, (start + size) as usize);
        assert!(size > 65_536 && end == b.bytes.len(), "name table must be > 64 KiB and lie at the end of the file");
        let table = &b.bytes[start..end];
        let find = |n: &[u8]| table.windows(n.len()).position(|w| w == n).expect("name present") + start;
        let mut cuts: Vec<usize> = vec![start - 1, start, start + 1, start + 65_535, start + 65_536, start + 65_537, end - 1, end - 2];
        for n in [&b".dynsym\0"[..], b".dynstr\0", b".note.a\0"] {
            let p = find(n);
            cuts.extend([p - 1, p, p + 3, p + n.len() - 1, p + n.len()]);
        }
        cuts.sort();
        cuts.dedup();
        let sk = crate::skeleton::Skeleton { name: format!("big-name-table/{}", enc.name()), enc, bytes: b.bytes, sites: Vec::new(), generated: true };
        let slice = PrefixCompare::new(true);
        let stream = super::stream_props::StreamPrefix;
        for c in cuts {
            if c >= sk.bytes.len() {
                continue;
            }
            use crate::lattice::PrefixOracle;
            slice.check(&sk, &sk.bytes, &sk.bytes[..c], out);
            stream.check(&sk, &sk.bytes, &sk.bytes[..c], out);
        }
        out.nontrivial(idx + 0xb16);
    }
}

pub fn build(tier: Tier) -> CheckDef {
    let mut spaces: Vec<Box<dyn Space>> = Vec::new();
    for sk in tiny_skeletons().into_iter().chain(small_shapes()).chain(extnum_shapes()) {
        spaces.push(Box::new(Prefixes { sk, oracle: PrefixCompare::new(true), label: "C18 slice parser" }));
    }
    // the same object under every file type (relocatable, executable, core): behaviour must not
    // depend on e_type
    for (k, sk) in tiny_skeletons().into_iter().enumerate() {
        if k != 4 && k != 3 {
            continue;
        }
        for (et, name) in [(1u64, "ET_REL"), (2, "ET_EXEC"), (4, "ET_CORE")] {
            let mut s2 = sk.clone();
            let site = s2.sites.iter().find(|s| s.role == "ehdr.e_type").unwrap().clone();
            refmodel::layout::put(&mut s2.bytes, site.off, site.width, s2.enc.order, et);
            s2.name = format!("{}/{}", s2.name, name);
            spaces.push(Box::new(Prefixes { sk: s2, oracle: PrefixCompare::new(true), label: "C18 slice parser" }));
        }
    }
    let encs: Vec<refmodel::layout::Enc> = if tier == Tier::Quick { vec![refmodel::layout::ENCS[2], refmodel::layout::ENCS[1]] } else { refmodel::layout::ENCS.to_vec() };
    for e in encs {
        for sk in rotated_skeletons(e) {
            spaces.push(Box::new(Prefixes { sk, oracle: PrefixCompare::new(true), label: "C18 slice parser" }));
        }
    }
    // the rotated objects under machines with processor-specific ABI deviations: behaviour on a cut
    // must not depend on e_machine (quick: 64-bit encodings, Alpha and s390x, the sections the
    // one-pass discovery reads; thorough: every quirk machine, every section, 4 encodings)
    {
        let encs: Vec<refmodel::layout::Enc> = if tier == Tier::Quick { vec![refmodel::layout::ENCS[2], refmodel::layout::ENCS[3]] } else { refmodel::layout::ENCS.to_vec() };
        let machines: Vec<(u16, &str)> = if tier == Tier::Quick { vec![(41, "EM_ALPHA"), (22, "EM_S390")] } else { QUIRK_MACHINES.to_vec() };
        let common = [".hash", ".gnu.hash", ".dynsym", ".dynstr", ".dynamic", ".symtab", ".strtab"];
        for e in encs {
            for sk in rotated_skeletons(e) {
                if !sk.name.ends_with("no-phdrs") {
                    continue;
                }
                if tier == Tier::Quick && !common.iter().any(|c| sk.name.contains(&format!("last-body={}/", c))) {
                    continue;
                }
                for (m, mname) in &machines {
                    let mut s2 = sk.clone();
                    let site = s2.sites.iter().find(|s| s.role == "ehdr.e_machine").unwrap().clone();
                    refmodel::layout::put(&mut s2.bytes, site.off, site.width, s2.enc.order, *m as u64);
                    s2.name = format!("{}/{}", s2.name, mname);
                    spaces.push(Box::new(Prefixes { sk: s2, oracle: PrefixCompare::new(true), label: "C18 slice parser" }));
                }
            }
        }
    }
    for sk in sample_skeletons() {
        if tier == Tier::Thorough && sk.bytes.len() <= 16 * 1024 || sk.bytes.len() <= 200 {
            spaces.push(Box::new(Prefixes { sk, oracle: PrefixCompare::new(false), label: "C18 slice parser" }));
        }
    }
    spaces.extend(super::stream_props::c18_stream_spaces(tier));
    spaces.push(Box::new(HugeTables));
    spaces.push(Box::new(BigNames));
    CheckDef {
        prop: "C18",
        level: "model_checking",
        rule: "crash-point enumeration: every prefix length 0..=L of every generated skeleton (tables-first layouts, so that most prefixes still open, and linker layouts) and 12 suffix extensions; the full query set runs on the cut and on the whole file, per API call the cut's answer must be Err or equal. states = distinct (file, cut) pairs; non-trivial = cut that still opens".into(),
        assumptions: vec![
            "caller-supplied-header queries are excluded (their geometry is relative to the file length, which differs between cut and whole)".into(),
            "suffix clause: identical answers including errors is demanded only for generated images whose declared ranges lie inside the file".into(),
        ],
        spaces,
        abort_is_violation: false,
        hang_is_violation: false,
        exhaustive: true,
        bounds: json!({"prefixes": "all", "suffixes": "1..4 bytes of {00,ff,7f}", "samples": tier.pick("<= 200 bytes", "<= 16 KiB")}),
    }
}
