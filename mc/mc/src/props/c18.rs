//! C18 — a truncated file yields errors or unchanged answers, never different answers.
use super::slice_oracles::PrefixCompare;
use crate::framework::*;
use crate::lattice::Prefixes;
use crate::skeleton::*;
use serde_json::json;

pub fn build(tier: Tier) -> CheckDef {
    let mut spaces: Vec<Box<dyn Space>> = Vec::new();
    for sk in tiny_skeletons().into_iter().chain(small_shapes()).chain(extnum_shapes()) {
        spaces.push(Box::new(Prefixes { sk, oracle: PrefixCompare::new(true), label: "C18 slice parser" }));
    }
    // the same object under every file type (relocatable, executable, core): behaviour must not
    // depend on e_type
    for (k, sk) in tiny_skeletons().into_iter().enumerate() {
        if k != 4 && k != 3 {
            continue;
        }
        for (et, name) in [(1u64, "ET_REL"), (2, "ET_EXEC"), (4, "ET_CORE")] {
            let mut s2 = sk.clone();
            let site = s2.sites.iter().find(|s| s.role == "ehdr.e_type").unwrap().clone();
            refmodel::layout::put(&mut s2.bytes, site.off, site.width, s2.enc.order, et);
            s2.name = format!("{}/{}", s2.name, name);
            spaces.push(Box::new(Prefixes { sk: s2, oracle: PrefixCompare::new(true), label: "C18 slice parser" }));
        }
    }
    let encs: Vec<refmodel::layout::Enc> = if tier == Tier::Quick { vec![refmodel::layout::ENCS[2], refmodel::layout::ENCS[1]] } else { refmodel::layout::ENCS.to_vec() };
    for e in encs {
        for sk in rotated_skeletons(e) {
            spaces.push(Box::new(Prefixes { sk, oracle: PrefixCompare::new(true), label: "C18 slice parser" }));
        }
    }
    for sk in sample_skeletons() {
        if tier == Tier::Thorough && sk.bytes.len() <= 16 * 1024 || sk.bytes.len() <= 200 {
            spaces.push(Box::new(Prefixes { sk, oracle: PrefixCompare::new(false), label: "C18 slice parser" }));
        }
    }
    spaces.extend(super::stream_props::c18_stream_spaces(tier));
    CheckDef {
        prop: "C18",
        level: "model_checking",
        rule: "crash-point enumeration: every prefix length 0..=L of every generated skeleton (tables-first layouts, so that most prefixes still open, and linker layouts) and 12 suffix extensions; the full query set runs on the cut and on the whole file, per API call the cut's answer must be Err or equal. states = distinct (file, cut) pairs; non-trivial = cut that still opens".into(),
        assumptions: vec![
            "caller-supplied-header queries are excluded (their geometry is relative to the file length, which differs between cut and whole)".into(),
            "suffix clause: identical answers including errors is demanded only for generated images whose declared ranges lie inside the file".into(),
        ],
        spaces,
        abort_is_violation: false,
        hang_is_violation: false,
        exhaustive: true,
        bounds: json!({"prefixes": "all", "suffixes": "1..4 bytes of {00,ff,7f}", "samples": tier.pick("<= 200 bytes", "<= 16 KiB")}),
    }
}
