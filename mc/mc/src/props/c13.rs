//! C13 — GNU symbol-version queries resolve to the right requirement/definition.
use super::common::*;
use super::slice_oracles::panic_site;
use crate::alloc::subject;
use crate::framework::*;
use crate::util::*;
use elf::gnu_symver::*;
use elf::string_table::StringTable;
use elf::ElfBytes;
use refmodel::image::*;
use refmodel::layout::*;
use refmodel::symver::*;
use serde_json::{json, Value};

/// shape: aux counts per needed file, name counts per definition
fn shapes(maxf: usize, maxa: usize, maxd: usize) -> Vec<(Vec<usize>, Vec<usize>)> {
    fn lists(n: usize, vals: &[usize]) -> Vec<Vec<usize>> {
        let mut out = vec![vec![]];
        for _ in 0..n {
            let mut next = Vec::new();
            for l in &out {
                for v in vals {
                    let mut x = l.clone();
                    x.push(*v);
                    next.push(x);
                }
            }
            out = next;
        }
        out
    }
    let avals: Vec<usize> = (1..=maxa).collect();
    let mut needs = Vec::new();
    for nf in 0..=maxf {
        needs.extend(lists(nf, &avals));
    }
    let mut defs = Vec::new();
    for nd in 0..=maxd {
        defs.extend(lists(nd, &[1, 3]));
    }
    let mut v = Vec::new();
    for n in &needs {
        for d in &defs {
            v.push((n.clone(), d.clone()));
        }
    }
    v
}

/// version-index assignment orders
fn assign(total: usize, how: u64) -> Vec<u16> {
    let base: Vec<u16> = (0..total as u16).map(|i| i + 2).collect();
    match how {
        0 => base,
        1 => base.into_iter().rev().collect(),
        2 => {
            let mut b = base;
            if !b.is_empty() {
                b.rotate_left(1);
            }
            b
        }
        _ => {
            // sparse and large indexes, the first definition takes index 1 (the "base" version)
            (0..total as u16).map(|i| if i == 0 { 1 } else { 0x100 + 37 * i }).collect()
        }
    }
}

fn make_model(shape: &(Vec<usize>, Vec<usize>), how: u64) -> VerModel {
    let total: usize = shape.0.iter().sum::<usize>() + shape.1.len();
    let idxs = assign(total, how);
    // definitions take their indexes first for how == 3 (so that one of them gets index 1)
    let mut k = 0;
    let mut defs = Vec::new();
    let mut needs = Vec::new();
    let mut take = || {
        let v = idxs[k];
        k += 1;
        v
    };
    if how == 3 {
        for (di, nn) in shape.1.iter().enumerate() {
            let ndx = take();
            defs.push(Def { ndx, flags: (di as u16 & 1) | 2, hash: 0x0d00_0000 + di as u32 * 0x111, names: (0..*nn).map(|j| format!("DEF_{}.{}", di, j).into_bytes()).collect() });
        }
    }
    for (fi, na) in shape.0.iter().enumerate() {
        let mut auxes = Vec::new();
        for j in 0..*na {
            let other = take();
            auxes.push(Aux { name: format!("NEED_{}.{}", fi, j).into_bytes(), hash: 0x0a00_0000 + (fi * 16 + j) as u32, flags: (j as u16) << 1, other });
        }
        needs.push(Need { file: format!("lib{}.so", fi).into_bytes(), auxes });
    }
    if how != 3 {
        for (di, nn) in shape.1.iter().enumerate() {
            let ndx = take();
            defs.push(Def { ndx, flags: (di as u16 & 1) | 2, hash: 0x0d00_0000 + di as u32 * 0x111, names: (0..*nn).map(|j| format!("DEF_{}.{}", di, j).into_bytes()).collect() });
        }
    }
    let mut versym: Vec<u16> = vec![0, 1];
    for i in &idxs {
        versym.push(*i);
        versym.push(*i | 0x8000);
    }
    versym.extend([0x7ffe, 0xfffe, 0x8000, 0x8001]);
    VerModel { needs, defs, versym }
}

struct Sections {
    versym: Vec<u8>,
    verneed: Vec<u8>,
    verdef: Vec<u8>,
    need_strs: Vec<u8>,
    def_strs: Vec<u8>,
}

fn sections(m: &VerModel, enc: Enc, lay_need: VerLayout, lay_def: VerLayout, shared_strtab: bool) -> Sections {
    let mut a = StrTab::new();
    a.add(b"pad"); // so that offsets are not trivially small
    let verneed = build_verneed(enc, &m.needs, lay_need, &mut a);
    let (verdef, need_strs, def_strs);
    if shared_strtab {
        verdef = build_verdef(enc, &m.defs, lay_def, &mut a);
        need_strs = a.bytes.clone();
        def_strs = a.bytes;
    } else {
        let mut b = StrTab::new();
        verdef = build_verdef(enc, &m.defs, lay_def, &mut b);
        need_strs = a.bytes;
        def_strs = b.bytes;
    }
    Sections { versym: build_versym(enc.order, &m.versym), verneed, verdef, need_strs, def_strs }
}

#[derive(Debug, PartialEq, Eq)]
struct Answers {
    reqs: Vec<Result<Option<ReqTruth>, ()>>,
    defs: Vec<Result<Option<Result<DefTruth, ()>>, ()>>,
}

/// symbol indexes queried: all of 0..n+3, or (for very large tables) the first 1800 and everything
/// from 65 000 on (around the 2^16 boundary and the end)
fn index_list(n: usize) -> Vec<usize> {
    let mut v: Vec<usize> = if n <= 5000 { (0..n + 3).collect() } else { (0..1800).chain(65_000..n + 3).collect() };
    // far beyond the table, with low bits that fall inside it (an index narrowed to 16 / 32 bits would hit a record)
    for base in [1usize << 16, 1 << 32, 1 << 48, 1 << 63, usize::MAX - 31] {
        for i in 0..n.min(12) {
            if base.wrapping_add(i) >= n + 3 {
                v.push(base.wrapping_add(i));
            }
        }
    }
    v
}

fn query<E: EndianParse>(t: &SymbolVersionTable<'_, E>, n: usize) -> Answers {
    let mut a = Answers { reqs: Vec::new(), defs: Vec::new() };
    for i in index_list(n) {
        a.reqs.push(match t.get_requirement(i) {
            Err(_) => Err(()),
            Ok(None) => Ok(None),
            Ok(Some(r)) => Ok(Some(ReqTruth { file: r.file.as_bytes().to_vec(), name: r.name.as_bytes().to_vec(), hash: r.hash, flags: r.flags, hidden: r.hidden })),
        });
        a.defs.push(match t.get_definition(i) {
            Err(_) => Err(()),
            Ok(None) => Ok(None),
            Ok(Some(d)) => {
                let mut names = Vec::new();
                let mut bad = false;
                for (k, nm) in d.names.enumerate() {
                    if k > 4096 {
                        bad = true;
                        break;
                    }
                    match nm {
                        Ok(s) => names.push(s.as_bytes().to_vec()),
                        Err(_) => bad = true,
                    }
                }
                // the names again through nth(k) on a fresh iterator each: must walk the same links
                if !bad {
                    for k in 1..=names.len().min(6) {
                        let via_nth = match t.get_definition(i) {
                            Ok(Some(mut d2)) => d2.names.nth(k).map(|r| r.ok().map(|s| s.as_bytes().to_vec())),
                            _ => Some(None),
                        };
                        let want = names.get(k).cloned();
                        let same = match (&via_nth, &want) {
                            (None, None) => true,
                            (Some(Some(a)), Some(b)) => a == b,
                            _ => false,
                        };
                        if !same {
                            names.push(format!("<names.nth({k}) disagrees with the names in order>").into_bytes());
                            break;
                        }
                    }
                }
                Ok(Some(if bad { Err(()) } else { Ok(DefTruth { hash: d.hash, flags: d.flags, names, hidden: d.hidden }) }))
            }
        });
    }
    a
}

fn judge(who: &str, ctx: &str, m: &VerModel, got: Result<Option<Answers>, String>, out: &mut Outcome, dig: &mut Fnv) -> u64 {
    let n = m.versym.len();
    let mut records = 0;
    match got {
        Err(msg) => out.violate(format!("panic:{who} in {}", panic_site(&msg)), format!("{ctx}: {msg}")),
        Ok(None) => out.violate(format!("well-formed-object-rejected:{who}"), ctx.to_string()),
        Ok(Some(a)) => {
            for (slot, i) in index_list(n).into_iter().enumerate() {
                out.transitions += 2;
                // requirement
                let want = m.requirement(i);
                let ok = match (&a.reqs[slot], &want) {
                    (Ok(g), Some(w)) => g == w,
                    // beyond the versym table: never a record
                    (Ok(None), None) | (Err(()), None) => true,
                    _ => false,
                };
                if !ok {
                    out.violate(
                        format!("requirement:{who}"),
                        format!("{ctx}: symbol {i} (versym {:?}): get_requirement = {:?}, ground truth {:?}", m.versym.get(i).map(|v| format!("{:#x}", v)), a.reqs[slot], want),
                    );
                    return records;
                }
                let wantd = m.definition(i);
                let okd = match (&a.defs[slot], &wantd) {
                    (Ok(None), Some(None)) => true,
                    (Ok(Some(Ok(g))), Some(Some(w))) => g == w,
                    (Ok(None), None) | (Err(()), None) => true,
                    _ => false,
                };
                if !okd {
                    out.violate(
                        format!("definition:{who}"),
                        format!("{ctx}: symbol {i} (versym {:?}): get_definition = {:?}, ground truth {:?}", m.versym.get(i).map(|v| format!("{:#x}", v)), a.defs[slot], wantd),
                    );
                    return records;
                }
                if let Ok(Some(r)) = &a.reqs[slot] {
                    records += 1;
                    dig.bytes(&r.name);
                }
                if let Ok(Some(Ok(d))) = &a.defs[slot] {
                    records += 1;
                    dig.u64(d.hash as u64);
                }
            }
        }
    }
    records
}

fn endian_of(enc: Enc) -> AnyEndian {
    if enc.order == Order::Lsb {
        AnyEndian::Little
    } else {
        AnyEndian::Big
    }
}

fn via_new(m: &VerModel, s: &Sections, enc: Enc) -> Result<Option<Answers>, String> {
    via_new_at(m, s, enc, 0)
}

/// The record iterators take the offset of the first record inside their bytes: `k` garbage bytes
/// are put in front of both record sections and the iterators are told to start at `k`.
fn via_new_at(m: &VerModel, s: &Sections, enc: Enc, k: usize) -> Result<Option<Answers>, String> {
    let e = endian_of(enc);
    let c = class_of(enc);
    let displaced = |b: &[u8]| -> Vec<u8> {
        let mut v: Vec<u8> = (0..k).map(|i| 0xE1u8.wrapping_add((i as u8).wrapping_mul(7))).collect();
        v.extend_from_slice(b);
        v
    };
    let (vn, vd) = (displaced(&s.verneed), displaced(&s.verdef));
    subject(|| {
        let ids = VersionIndexTable::new(e, c, &s.versym);
        let needs = if m.needs.is_empty() { None } else { Some((VerNeedIterator::new(e, c, m.needs.len() as u64, k, &vn), StringTable::new(&s.need_strs))) };
        let defs = if m.defs.is_empty() { None } else { Some((VerDefIterator::new(e, c, m.defs.len() as u64, k, &vd), StringTable::new(&s.def_strs))) };
        let t = SymbolVersionTable::new(ids, needs, defs);
        Some(query(&t, m.versym.len()))
    })
}

fn file_image(m: &VerModel, s: &Sections, enc: Enc, order_variant: u64, shared: bool) -> Vec<u8> {
    // section numbering depends on the order variant; links are computed from names afterwards
    let mut secs: Vec<Sec> = Vec::new();
    // in the third section order .dynsym declares only half as many symbols as .gnu.version has entries:
    // the version table's length is its own section's business
    let dynsym = vec![0u8; layout(Kind::Sym, enc.class).size * if order_variant == 2 { m.versym.len() / 2 } else { m.versym.len() }];
    let mk_versym = || Sec::new(b".gnu.version", SHT_GNU_VERSYM, s.versym.clone()).entsize(2);
    let mk_need = || Sec::new(b".gnu.version_r", SHT_GNU_VERNEED, s.verneed.clone()).info(m.needs.len() as u32);
    let mk_def = || Sec::new(b".gnu.version_d", SHT_GNU_VERDEF, s.verdef.clone()).info(m.defs.len() as u32);
    secs.push(Sec::new(b".text", SHT_PROGBITS, vec![0x90; 5]));
    secs.push(Sec::new(b".dynsym", SHT_DYNSYM, dynsym).entsize(layout(Kind::Sym, enc.class).size as u64));
    // a decoy string table comes first so that "the first SHT_STRTAB" is the wrong one
    secs.push(Sec::new(b".decoy", SHT_STRTAB, b"\0decoy\0decoy2\0decoydecoydecoydecoydecoydecoydecoydecoydecoy\0".to_vec()));
    secs.push(Sec::new(b".dynstr", SHT_STRTAB, s.need_strs.clone()));
    if !shared {
        secs.push(Sec::new(b".verstr", SHT_STRTAB, s.def_strs.clone()));
    }
    let mut vers: Vec<Sec> = Vec::new();
    match order_variant {
        0 => {
            vers.push(mk_versym());
            if !m.needs.is_empty() {
                vers.push(mk_need());
            }
            if !m.defs.is_empty() {
                vers.push(mk_def());
            }
        }
        1 => {
            if !m.defs.is_empty() {
                vers.push(mk_def());
            }
            if !m.needs.is_empty() {
                vers.push(mk_need());
            }
            vers.push(mk_versym());
        }
        _ => {
            if !m.needs.is_empty() {
                vers.push(mk_need());
            }
            vers.push(mk_versym());
            if !m.defs.is_empty() {
                vers.push(mk_def());
            }
        }
    }
    if order_variant == 1 {
        // version sections before everything else
        let mut all = vers;
        all.extend(secs);
        secs = all;
    } else {
        secs.extend(vers);
    }
    let pos = |n: &[u8], secs: &Vec<Sec>| secs.iter().position(|x| x.name == n).map(|p| p as u32 + 1).unwrap_or(0);
    let (dynsym_i, dynstr_i) = (pos(b".dynsym", &secs), pos(b".dynstr", &secs));
    let verstr_i = if shared { dynstr_i } else { pos(b".verstr", &secs) };
    for x in secs.iter_mut() {
        match x.name.as_slice() {
            b".dynsym" => x.link = dynstr_i,
            b".gnu.version" => x.link = dynsym_i,
            b".gnu.version_r" => x.link = dynstr_i,
            b".gnu.version_d" => x.link = verstr_i,
            _ => {}
        }
    }
    let mut spec = Spec::new(enc, TableOrder::Linker);
    spec.secs = secs;
    refmodel::image::build(&spec).bytes
}

fn via_file(m: &VerModel, bytes: &[u8]) -> Result<Option<Answers>, String> {
    subject(|| {
        let f = ElfBytes::<AnyEndian>::minimal_parse(bytes).ok()?;
        let t = f.symbol_version_table().ok()??;
        Some(query(&t, m.versym.len()))
    })
}

fn via_stream(m: &VerModel, bytes: &[u8]) -> Result<Option<Answers>, String> {
    subject(|| {
        let mut f = elf::ElfStream::<AnyEndian, _>::open_stream(std::io::Cursor::new(bytes.to_vec())).ok()?;
        let t = f.symbol_version_table().ok()??;
        Some(query(&t, m.versym.len()))
    })
}

struct Models {
    maxf: usize,
    maxa: usize,
    maxd: usize,
}
impl Models {
    fn dims(&self) -> [u64; 5] {
        // shape, assignment, need layout, def layout, (enc x strtab sharing x section order)
        [shapes(self.maxf, self.maxa, self.maxd).len() as u64, 4, 5, 5, 4 * 2 * 3]
    }
}
impl Space for Models {
    fn name(&self) -> String {
        format!(
            "version models: <= {} needed files x 1..={} aux each, <= {} definitions x {{1,3}} names, 4 index assignments (ascending, descending, rotated, sparse with a definition at index 1) x 5 verneed layouts x 5 verdef layouts (contiguous, aux-after-heads, gaps 4/12, interleaved) x 4 encodings x {{shared, separate}} string tables x 3 section orders; versym = 0, 1, every index, every index|0x8000, unknown indexes; via SymbolVersionTable::new, ElfBytes and ElfStream",
            self.maxf, self.maxa, self.maxd
        )
    }
    fn size(&self) -> u64 {
        product(&self.dims())
    }
    fn describe(&self, idx: u64) -> Value {
        let d = unmix(idx, &self.dims());
        let sh = &shapes(self.maxf, self.maxa, self.maxd)[d[0] as usize];
        json!({"aux_per_needed_file": sh.0, "names_per_definition": sh.1, "index_assignment": d[1], "verneed_layout": format!("{:?}", LAYOUTS[d[2] as usize]), "verdef_layout": format!("{:?}", LAYOUTS[d[3] as usize]), "encoding": ENCS[(d[4] % 4) as usize].name(), "shared_strtab": (d[4] / 4) % 2 == 0, "section_order": d[4] / 8})
    }
    fn run(&self, idx: u64, out: &mut Outcome) {
        let d = unmix(idx, &self.dims());
        let sh = &shapes(self.maxf, self.maxa, self.maxd)[d[0] as usize];
        // layouts only matter when there is something to lay out
        if (sh.0.is_empty() && d[2] != 0) || (sh.1.is_empty() && d[3] != 0) {
            out.count("layout_irrelevant_duplicate");
            return;
        }
        let enc = ENCS[(d[4] % 4) as usize];
        let shared = (d[4] / 4) % 2 == 0;
        let order = d[4] / 8;
        let m = make_model(sh, d[1]);
        let s = sections(&m, enc, LAYOUTS[d[2] as usize], LAYOUTS[d[3] as usize], shared);
        let ctx = format!("{} needs {:?} defs {:?} assignment {} layouts {:?}/{:?} shared_strtab {} order {}", enc.name(), sh.0, sh.1, d[1], LAYOUTS[d[2] as usize], LAYOUTS[d[3] as usize], shared, order);
        let mut dig = Fnv::new();
        let mut rec = 0;
        if order == 0 {
            rec += judge("SymbolVersionTable::new", &ctx, &m, via_new(&m, &s, enc), out, &mut dig);
        }
        let bytes = file_image(&m, &s, enc, order, shared);
        rec += judge("ElfBytes::symbol_version_table", &ctx, &m, via_file(&m, &bytes), out, &mut dig);
        rec += judge("ElfStream::symbol_version_table", &ctx, &m, via_stream(&m, &bytes), out, &mut dig);
        if rec > 0 {
            out.nontrivial(dig.get() ^ idx);
            out.count("models_with_records");
        } else {
            out.count("models_without_records");
        }
    }
}

/// boundary instances: 40 files x 20 aux, 40 definitions x 5 names
struct Big;
impl Space for Big {
    fn name(&self) -> String {
        "boundary instances: 40 needed files x 20 aux each and 40 definitions x 5 names (842 distinct indexes), 5 layouts x 4 encodings".into()
    }
    fn size(&self) -> u64 {
        20
    }
    fn describe(&self, idx: u64) -> Value {
        json!({"layout": format!("{:?}", LAYOUTS[(idx % 5) as usize]), "encoding": ENCS[(idx / 5) as usize].name()})
    }
    fn run(&self, idx: u64, out: &mut Outcome) {
        let lay = LAYOUTS[(idx % 5) as usize];
        let enc = ENCS[(idx / 5) as usize];
        let shape = (vec![20usize; 40], vec![5usize; 40]);
        let total = 40 * 20 + 40;
        let mut m = make_model(&(shape.0.clone(), vec![1; 40]), 1);
        for (di, d) in m.defs.iter_mut().enumerate() {
            d.names = (0..5).map(|j| format!("DEF_{}.{}", di, j).into_bytes()).collect();
        }
        assert_eq!(m.versym.len(), 2 + 2 * total + 4);
        // symbol indexes beyond 2^16: pad the versym table to 70 000 entries
        let last = *m.versym.last().unwrap();
        while m.versym.len() < 69_990 {
            m.versym.push(0);
        }
        m.versym.extend([2, 0x8003, last, 1, 0, 845, 0x8000 | 845, 0x7fff, 3, 4]);
        let s = sections(&m, enc, lay, lay, false);
        let ctx = format!("{} 40x20 needs, 40x5 defs, layout {:?}", enc.name(), lay);
        let mut dig = Fnv::new();
        let r1 = judge("SymbolVersionTable::new", &ctx, &m, via_new(&m, &s, enc), out, &mut dig);
        let bytes = file_image(&m, &s, enc, 0, false);
        let r2 = judge("ElfBytes::symbol_version_table", &ctx, &m, via_file(&m, &bytes), out, &mut dig);
        if r1 + r2 > 0 {
            out.nontrivial(dig.get() ^ idx);
        }
    }
}

/// The whole 16-bit versym domain: for every value v the symbol must resolve to the record whose
/// index is v & 0x7fff (one needed version and one definition carry that index), hidden = bit 15.
struct VersymDomain;
impl Space for VersymDomain {
    fn name(&self) -> String {
        "every versym value 0..=0xffff (256 per case): a verneed aux and (separately) a verdef carry index v & 0x7fff; requirement / definition must resolve with hidden = bit 15; 2 encodings".into()
    }
    fn size(&self) -> u64 {
        256 * 2
    }
    fn describe(&self, idx: u64) -> Value {
        json!({"versym_values": format!("{:#x}00..={:#x}ff", idx % 256, idx % 256), "encoding": ENCS[if idx / 256 == 0 { 2 } else { 1 }].name()})
    }
    fn run(&self, idx: u64, out: &mut Outcome) {
        let enc = ENCS[if idx / 256 == 0 { 2 } else { 1 }];
        let mut dig = Fnv::new();
        for lo in 0..256u64 {
            let v = (((idx % 256) << 8) | lo) as u16;
            let ndx = v & 0x7fff;
            for as_def in [false, true] {
                let m = VerModel {
                    needs: if as_def { vec![] } else { vec![Need { file: b"lib.so".to_vec(), auxes: vec![Aux { name: b"V_OTHER".to_vec(), hash: 1, flags: 0, other: ndx ^ 0x55 }, Aux { name: b"V_THIS".to_vec(), hash: 2, flags: 4, other: ndx }] }] },
                    defs: if as_def { vec![Def { ndx: ndx ^ 0x2a, flags: 0, hash: 3, names: vec![b"D_OTHER".to_vec()] }, Def { ndx, flags: 1, hash: 4, names: vec![b"D_THIS".to_vec(), b"D_PARENT".to_vec()] }] } else { vec![] },
                    versym: vec![0, v, v ^ 0x8000],
                };
                let s = sections(&m, enc, VerLayout::Contiguous, VerLayout::AuxAfterHeads, true);
                let ctx = format!("{} versym {v:#x} as {}", enc.name(), if as_def { "definition" } else { "requirement" });
                judge("SymbolVersionTable::new", &ctx, &m, via_new(&m, &s, enc), out, &mut dig);
            }
        }
        out.nontrivial(dig.get() ^ idx);
    }
}

/// Sections padded to lengths around 2^16 and 2^19 (+ a multiple of 2^19): counts or offsets
/// derived from the section length must not wrap.
struct Padded;
impl Space for Padded {
    fn name(&self) -> String {
        "2 needed files x 2 aux, 2 definitions x 3 names in sections padded with trailing garbage to lengths 2^16+d, 2^19+d and 2^20+d for d in 0..256 step 4; 5 layouts; ELF64-LSB and ELF32-MSB".into()
    }
    fn size(&self) -> u64 {
        3 * 64 * 5 * 2
    }
    fn describe(&self, idx: u64) -> Value {
        let d = unmix(idx, &[3, 64, 5, 2]);
        let plen = [65536u64, 524288, 1048576][d[0] as usize] + 4 * d[1];
        json!({"padded_length": plen, "layout": format!("{:?}", LAYOUTS[d[2] as usize]), "encoding": ENCS[if d[3] == 0 { 2 } else { 1 }].name()})
    }
    fn run(&self, idx: u64, out: &mut Outcome) {
        let d = unmix(idx, &[3, 64, 5, 2]);
        let len = ([65536u64, 524288, 1048576][d[0] as usize] + 4 * d[1]) as usize;
        let enc = ENCS[if d[3] == 0 { 2 } else { 1 }];
        let m = make_model(&(vec![2, 2], vec![3, 3]), 0);
        let mut s = sections(&m, enc, LAYOUTS[d[2] as usize], LAYOUTS[d[2] as usize], false);
        s.verneed.resize(len, 0xEE);
        s.verdef.resize(len, 0xEE);
        let ctx = format!("{} sections padded to {} bytes, layout {:?}", enc.name(), len, LAYOUTS[d[2] as usize]);
        let mut dig = Fnv::new();
        let r = judge("SymbolVersionTable::new", &ctx, &m, via_new(&m, &s, enc), out, &mut dig);
        if d[1] % 16 == 0 {
            let bytes = file_image(&m, &s, enc, 0, false);
            judge("ElfBytes::symbol_version_table", &ctx, &m, via_file(&m, &bytes), out, &mut dig);
        }
        if r > 0 {
            out.nontrivial(dig.get() ^ idx);
        }
    }
}

/// Needed files without any version (vn_cnt = 0) around the one that carries the versions.
struct Sparse;
const SPARSE_K: [usize; 8] = [1, 2, 3, 4, 5, 8, 16, 40];
impl Space for Sparse {
    fn name(&self) -> String {
        "sparse requirement lists: k needed files with vn_cnt = 0 (k in {1,2,3,4,5,8,16,40}) and one file with 1-2 versions placed first / in the middle / last, 1 definition; 5 layouts x 4 encodings; via SymbolVersionTable::new, ElfBytes and ElfStream".into()
    }
    fn size(&self) -> u64 {
        8 * 3 * 5 * 4
    }
    fn describe(&self, idx: u64) -> Value {
        let d = unmix(idx, &[8, 3, 5, 4]);
        json!({"empty_needed_files": SPARSE_K[d[0] as usize], "position_of_the_versioned_file": d[1], "layout": format!("{:?}", LAYOUTS[d[2] as usize]), "encoding": ENCS[d[3] as usize].name()})
    }
    fn run(&self, idx: u64, out: &mut Outcome) {
        let d = unmix(idx, &[8, 3, 5, 4]);
        let k = SPARSE_K[d[0] as usize];
        let pos = [0, k / 2, k][d[1] as usize];
        let lay = LAYOUTS[d[2] as usize];
        let enc = ENCS[d[3] as usize];
        let mut aux: Vec<usize> = vec![0; k];
        aux.insert(pos, 1 + (k % 2));
        let m = make_model(&(aux, vec![1]), 0);
        let s = sections(&m, enc, lay, lay, true);
        let ctx = format!("{} {} empty needed files, versioned file at position {}, layout {:?}", enc.name(), k, pos, lay);
        let mut dig = Fnv::new();
        let mut r = judge("SymbolVersionTable::new", &ctx, &m, via_new(&m, &s, enc), out, &mut dig);
        let bytes = file_image(&m, &s, enc, 0, true);
        r += judge("ElfBytes::symbol_version_table", &ctx, &m, via_file(&m, &bytes), out, &mut dig);
        r += judge("ElfStream::symbol_version_table", &ctx, &m, via_stream(&m, &bytes), out, &mut dig);
        if r > 0 {
            out.nontrivial(dig.get() ^ idx);
        }
    }
}

/// Record iterators started at a non-zero offset inside their bytes.
pub struct Displaced;
const DISP_K: [usize; 8] = [1, 2, 4, 16, 20, 28, 33, 4096];
impl Space for Displaced {
    fn name(&self) -> String {
        "VerNeedIterator / VerDefIterator constructed with starting_offset k over bytes that carry k garbage bytes in front of the records, k in {1,2,4,16,20,28,33,4096}: 2 needed files x {1,2} aux, 2 definitions x {1,3} names, 4 index assignments x 5 layouts x 4 encodings; every symbol's requirement and definition".into()
    }
    fn size(&self) -> u64 {
        8 * 5 * 4 * 4
    }
    fn describe(&self, idx: u64) -> Value {
        let d = unmix(idx, &[8, 5, 4, 4]);
        json!({"starting_offset": DISP_K[d[0] as usize], "layout": format!("{:?}", LAYOUTS[d[1] as usize]), "encoding": ENCS[d[2] as usize].name(), "index_assignment": d[3]})
    }
    fn run(&self, idx: u64, out: &mut Outcome) {
        let d = unmix(idx, &[8, 5, 4, 4]);
        let k = DISP_K[d[0] as usize];
        let lay = LAYOUTS[d[1] as usize];
        let enc = ENCS[d[2] as usize];
        let m = make_model(&(vec![1, 2], vec![1, 3]), d[3]);
        let s = sections(&m, enc, lay, lay, false);
        let ctx = format!("{} layout {:?}: record iterators started at offset {} behind {} garbage bytes", enc.name(), lay, k, k);
        let mut dig = Fnv::new();
        let r = judge("SymbolVersionTable::new(displaced iterators)", &ctx, &m, via_new_at(&m, &s, enc, k), out, &mut dig);
        if r > 0 {
            out.nontrivial(dig.get() ^ idx);
        }
    }
}

pub fn build(tier: Tier) -> CheckDef {
    let (f, a, d) = tier.pick((3, 2, 2), (4, 3, 3));
    CheckDef {
        prop: "C13",
        level: "model_checking",
        rule: "complete enumeration of small version models (every shape of needed files/aux and definitions/names up to the bound, index assignments, record layouts incl. non-contiguous and interleaved, separate string tables, section orders) built by the reference builder; every symbol index 0..n+2 is queried for its requirement and definition through three access paths and compared with the model's ground truth (file, name, hash, flags, ordered names, hidden bit). non-trivial = model for which at least one record is returned".into(),
        assumptions: vec!["record layouts are forward-linked (next/aux offsets are unsigned)".into()],
        spaces: vec![Box::new(Models { maxf: f, maxa: a, maxd: d }), Box::new(Big), Box::new(VersymDomain), Box::new(Padded), Box::new(Displaced), Box::new(Sparse),
            // symbol versions of the tiny-full objects do not depend on the platform the header names
            Box::new(super::c02::Platforms { sk: crate::skeleton::tiny_skeletons().into_iter().filter(|s| s.name.ends_with("linker-order")).collect() })],
        abort_is_violation: false,
        hang_is_violation: true,
        exhaustive: true,
        bounds: json!({"needed_files": f, "aux_per_file": a, "definitions": d, "names_per_definition": [1, 3]}),
    }
}
