//! C17 — stream I/O failures surface as errors and never corrupt later answers.
use super::stream_props::*;
use crate::framework::*;
use serde_json::json;

pub fn build(tier: Tier) -> CheckDef {
    let spaces: Vec<Box<dyn Space>> = vec![
        Box::new(StreamSpace { which: Which::C17, cases: stream_cases(tier, Which::C17), threads: tier.pick(4, 8), budget_secs: tier.pick(150, 7200) }),
        Box::new(Occupancy { which: Which::C17, max: tier.pick(72, 100) }),
        Box::new(OccupancyBig { which: Which::C17 }),
        Box::new(HugeOpen { which: Which::C17 }),
        Box::new(HugeSession { which: Which::C17, depth: tier.pick(2, 3), encs: tier.pick(1, 2) }),
    ];
    CheckDef {
        prop: "C17",
        level: "model_checking",
        rule: "explicit-state BFS (stateright) over the real ElfStream with a fault-injecting environment: from every reachable state, every op (and opening), a fault at each I/O call index x {read error, premature EOF, short-then-EOF, seek error} x {transient, permanent}; the search continues from the post-fault state to a fixpoint so every later query in every later state is checked: a call under or after a fault returns Err or exactly the fault-free answer (slice parser as truth), and never panics".into(),
        assumptions: vec![
            "fault-free truth = the slice parser's answer on the same bytes (C07 establishes their equivalence)".into(),
            "for ops outside C07's scope (SHF_COMPRESSED sections, empty section header table) the fault-free truth is the stream's own answer to the same query on a fresh fault-free stream".into(),
        ],
        spaces,
        abort_is_violation: true,
        hang_is_violation: false,
        exhaustive: true,
        bounds: json!({"faults_per_transition": tier.pick(1, 2), "fault_kinds": ["ReadErr", "Eof", "ShortThenEof", "SeekErr", "ReadErrDead(permanent)", "SeekErrDead(permanent)"]}),
    }
}
