//! C09 — lazy tables are coherent: len, get, iteration and emptiness agree.
use super::common::*;
use super::slice_oracles::panic_site;
use crate::alloc::subject;
use crate::driver::index_alphabet;
use crate::framework::*;
use crate::util::*;
use elf::parse::{ParseAt, ParsingIterator, ParsingTable};
use refmodel::layout::{decode, layout, Kind, ENCS};
use serde_json::{json, Value};
use std::collections::{HashSet, VecDeque};

const TYPES: [(&str, Option<Kind>, usize); 9] = [
    ("SectionHeader", Some(Kind::Shdr), 0),
    ("ProgramHeader", Some(Kind::Phdr), 0),
    ("Symbol", Some(Kind::Sym), 0),
    ("Dyn", Some(Kind::Dyn), 0),
    ("VersionIndex", Some(Kind::Versym), 0),
    ("u32", None, 4),
    ("u64", None, 8),
    ("Rel", Some(Kind::Rel), 0),
    ("Rela", Some(Kind::Rela), 0),
];

fn entsize(t: usize, enc: Enc) -> usize {
    match TYPES[t].1 {
        Some(k) => layout(k, enc.class).size,
        None => TYPES[t].2,
    }
}

/// reference decode of entry i -> digest of its field values (in the crate's public representation)
fn ref_entry(t: usize, enc: Enc, data: &[u8], i: usize) -> u64 {
    let e = entsize(t, enc);
    let off = i * e;
    let mut f = Fnv::new();
    match TYPES[t].1 {
        None => f.u64(refmodel::layout::get(data, off, e, enc.order)),
        Some(Kind::Rel) | Some(Kind::Rela) => {
            let v = decode(TYPES[t].1.unwrap(), enc, data, off);
            f.u64(v[0]);
            let (sym, ty) = if enc.class == refmodel::layout::Class::C32 {
                (refmodel::layout::elf32_r_sym(v[1]), refmodel::layout::elf32_r_type(v[1]))
            } else {
                (refmodel::layout::elf64_r_sym(v[1]), refmodel::layout::elf64_r_type(v[1]))
            };
            f.u64(sym);
            f.u64(ty);
            if v.len() > 2 {
                f.u64(v[2]);
            }
        }
        Some(k) => {
            for x in decode(k, enc, data, off) {
                f.u64(x);
            }
        }
    }
    f.get()
}

/// digest of a crate value, same field order as the reference layout tables
trait Dig {
    fn dig(&self) -> u64;
}
impl Dig for elf::section::SectionHeader {
    fn dig(&self) -> u64 {
        let mut f = Fnv::new();
        for x in [self.sh_name as u64, self.sh_type as u64, self.sh_flags, self.sh_addr, self.sh_offset, self.sh_size, self.sh_link as u64, self.sh_info as u64, self.sh_addralign, self.sh_entsize] {
            f.u64(x);
        }
        f.get()
    }
}
impl Dig for elf::segment::ProgramHeader {
    fn dig(&self) -> u64 {
        let mut f = Fnv::new();
        for x in [self.p_type as u64, self.p_offset, self.p_vaddr, self.p_paddr, self.p_filesz, self.p_memsz, self.p_flags as u64, self.p_align] {
            f.u64(x);
        }
        f.get()
    }
}
impl Dig for elf::symbol::Symbol {
    fn dig(&self) -> u64 {
        let mut f = Fnv::new();
        for x in [self.st_name as u64, self.st_value, self.st_size, self.st_info as u64, self.st_other as u64, self.st_shndx as u64] {
            f.u64(x);
        }
        f.get()
    }
}
impl Dig for elf::dynamic::Dyn {
    fn dig(&self) -> u64 {
        let mut f = Fnv::new();
        f.u64(self.d_tag as u64);
        f.u64(self.d_val());
        f.get()
    }
}
impl Dig for elf::gnu_symver::VersionIndex {
    fn dig(&self) -> u64 {
        let mut f = Fnv::new();
        f.u64(self.0 as u64);
        f.get()
    }
}
impl Dig for u32 {
    fn dig(&self) -> u64 {
        let mut f = Fnv::new();
        f.u64(*self as u64);
        f.get()
    }
}
impl Dig for u64 {
    fn dig(&self) -> u64 {
        let mut f = Fnv::new();
        f.u64(*self);
        f.get()
    }
}
impl Dig for elf::relocation::Rel {
    fn dig(&self) -> u64 {
        let mut f = Fnv::new();
        f.u64(self.r_offset);
        f.u64(self.r_sym as u64);
        f.u64(self.r_type as u64);
        f.get()
    }
}
impl Dig for elf::relocation::Rela {
    fn dig(&self) -> u64 {
        let mut f = Fnv::new();
        f.u64(self.r_offset);
        f.u64(self.r_sym as u64);
        f.u64(self.r_type as u64);
        f.u64(self.r_addend as u64);
        f.get()
    }
}

macro_rules! per_type9 {
    ($t:expr, $f:ident, $($args:expr),*) => {
        match $t {
            0 => $f::<elf::section::SectionHeader>($($args),*),
            1 => $f::<elf::segment::ProgramHeader>($($args),*),
            2 => $f::<elf::symbol::Symbol>($($args),*),
            3 => $f::<elf::dynamic::Dyn>($($args),*),
            4 => $f::<elf::gnu_symver::VersionIndex>($($args),*),
            5 => $f::<u32>($($args),*),
            6 => $f::<u64>($($args),*),
            7 => $f::<elf::relocation::Rel>($($args),*),
            _ => $f::<elf::relocation::Rela>($($args),*),
        }
    };
}

fn endian_of(enc: Enc) -> AnyEndian {
    if enc.order == Order::Lsb {
        AnyEndian::Little
    } else {
        AnyEndian::Big
    }
}

/// (len, is_empty, get results for the given indexes, items of a full iteration, items of into_iter,
///  items of a bare ParsingIterator)
struct TableObs {
    len: usize,
    is_empty: bool,
    gets: Vec<Option<u64>>,
    iter: Vec<u64>,
    into_iter: Vec<u64>,
    bare: Vec<u64>,
    again: Vec<Option<u64>>,
}
fn observe_table<P: ParseAt + Dig>(enc: Enc, data: &[u8], idxs: &[usize]) -> TableObs {
    let e = endian_of(enc);
    let c = class_of(enc);
    let t = ParsingTable::<AnyEndian, P>::new(e, c, data);
    let cap = data.len() + 2;
    let gets: Vec<Option<u64>> = idxs.iter().map(|i| t.get(*i).ok().map(|x| x.dig())).collect();
    let iter: Vec<u64> = t.iter().take(cap).map(|x| x.dig()).collect();
    // repeated / re-ordered accesses
    let again: Vec<Option<u64>> = idxs.iter().rev().map(|i| t.get(*i).ok().map(|x| x.dig())).collect();
    let len = t.len();
    let is_empty = t.is_empty();
    let into_iter: Vec<u64> = t.into_iter().take(cap).map(|x| x.dig()).collect();
    let bare: Vec<u64> = ParsingIterator::<AnyEndian, P>::new(e, c, data).take(cap).map(|x| x.dig()).collect();
    TableObs { len, is_empty, gets, iter, into_iter, bare, again }
}

struct Grid {
    full: bool,
}
impl Grid {
    fn dims(&self) -> [u64; 4] {
        // type, enc, length (up to 3*ent+ent-1 of the largest entry = 255), fill {pattern, ff, 00}
        [9, 4, 256, 3]
    }
}
fn pattern(len: usize) -> Vec<u8> {
    (0..len).map(|i| (i as u8).wrapping_mul(37) ^ 0x5c ^ ((i >> 3) as u8)).collect()
}
impl Space for Grid {
    fn name(&self) -> String {
        "ParsingTable/ParsingIterator for {SectionHeader, ProgramHeader, Symbol, Dyn, VersionIndex, u32, u64, Rel, Rela} x 4 encodings x every byte length 0..=4*entsize-1 (ragged tails included) x contents {mixed pattern, all ff, all 00} x indexes 0..len+2 and I(len)".into()
    }
    fn size(&self) -> u64 {
        product(&self.dims())
    }
    fn describe(&self, idx: u64) -> Value {
        let d = unmix(idx, &self.dims());
        json!({"type": TYPES[d[0] as usize].0, "encoding": ENCS[d[1] as usize].name(), "byte_len": d[2], "fill": d[3]})
    }
    fn run(&self, idx: u64, out: &mut Outcome) {
        let d = unmix(idx, &self.dims());
        let (t, enc, blen) = (d[0] as usize, ENCS[d[1] as usize], d[2] as usize);
        let ent = entsize(t, enc);
        if blen > 4 * ent - 1 {
            out.count("beyond_4*entsize-1_not_needed");
            return;
        }
        // no field value makes an entry "unparsable": also all-ones (reserved indexes, -1) and all-zero entries
        let data = match d[3] {
            0 => pattern(blen),
            1 => vec![0xff; blen],
            _ => vec![0x00; blen],
        };
        let n = blen / ent;
        let mut idxs: Vec<usize> = (0..n + 3).collect();
        idxs.extend(index_alphabet(n, ent));
        let obs = match subject(|| per_type9!(t, observe_table, enc, &data, &idxs)) {
            Err(m) => {
                out.violate(format!("panic:ParsingTable<{}> in {}", TYPES[t].0, panic_site(&m)), m);
                return;
            }
            Ok(o) => o,
        };
        out.transitions += (2 * idxs.len() + 5) as u64;
        let who = TYPES[t].0;
        let ctx = format!("{} {} byte_len={} (entsize {}, whole entries {})", who, enc.name(), blen, ent, n);
        if obs.len != n {
            out.violate(format!("len:{who}"), format!("{ctx}: len() = {}", obs.len));
        }
        if obs.is_empty != (n == 0) {
            out.violate(format!("is_empty:{who}"), format!("{ctx}: is_empty() = {}", obs.is_empty));
        }
        let truth: Vec<u64> = (0..n).map(|i| ref_entry(t, enc, &data, i)).collect();
        for (k, i) in idxs.iter().enumerate() {
            let want = if *i < n { Some(truth[*i]) } else { None };
            if obs.gets[k] != want {
                out.violate(
                    format!("get:{who}"),
                    format!("{ctx}: get({}) is {} but should be {}", i, if obs.gets[k].is_some() { "Ok(..)" } else { "Err" }, if want.is_some() { "Ok(entry)" } else { "Err" }),
                );
                break;
            }
            if obs.again[idxs.len() - 1 - k] != obs.gets[k] {
                out.violate(format!("get-not-repeatable:{who}"), format!("{ctx}: get({}) answered differently the second time", i));
                break;
            }
        }
        for (name, items) in [("iter", &obs.iter), ("into_iter", &obs.into_iter), ("ParsingIterator", &obs.bare)] {
            if *items != truth {
                out.violate(
                    format!("{name}:{who}"),
                    format!("{ctx}: {name} yields {} items, the table has {} whole entries{}", items.len(), n, if items.len() == n { " (contents differ)" } else { "" }),
                );
            }
        }
        if n > 0 {
            let mut f = Fnv::new();
            for x in &truth {
                f.u64(*x);
            }
            f.u64(idx);
            out.nontrivial(f.get());
            out.count("tables_with_entries");
        } else {
            out.count("tables_without_whole_entry");
        }
    }
}

// ---- explicit-state exploration of (table, iterator) operation sequences ---------------------
#[derive(Clone, Copy, Debug, PartialEq, Eq, Hash)]
enum IOp {
    Next,
    Nth0,
    Nth1,
    Nth2,
    /// nth(huge): usize::MAX, usize::MAX / entsize, usize::MAX / entsize + 1, 2^63
    NthHuge(u8),
    Get(u8),
    Len,
    FreshIterFirst,
    SizeHintLower,
    /// terminal (consume the iterator): only as the last op of a history
    Last,
    Count,
}
const IOPS: [IOp; 17] = [IOp::Next, IOp::Nth0, IOp::Nth1, IOp::Nth2, IOp::NthHuge(0), IOp::NthHuge(1), IOp::NthHuge(2), IOp::NthHuge(3), IOp::Get(0), IOp::Get(1), IOp::Get(2), IOp::Get(3), IOp::Len, IOp::FreshIterFirst, IOp::SizeHintLower, IOp::Last, IOp::Count];

/// Run a history on a fresh iterator; returns (results, fingerprint of the iterator's Debug text).
fn run_hist<P: ParseAt + Dig + std::fmt::Debug>(enc: Enc, data: &[u8], hist: &[IOp]) -> (Vec<Option<u64>>, u64) {
    let e = endian_of(enc);
    let c = class_of(enc);
    let t = ParsingTable::<AnyEndian, P>::new(e, c, data);
    let mut it = t.iter();
    let mut res = Vec::new();
    for (k, op) in hist.iter().enumerate() {
        if matches!(op, IOp::Last | IOp::Count) {
            assert!(k + 1 == hist.len(), "terminal op in the middle of a history");
            let r = if *op == IOp::Last { it.last().map(|x| x.dig()) } else { Some(it.count() as u64) };
            res.push(r);
            return (res, 0xdead_0000 ^ k as u64);
        }
        let r = match op {
            IOp::Next => it.next().map(|x| x.dig()),
            IOp::Nth0 => it.nth(0).map(|x| x.dig()),
            IOp::Nth1 => it.nth(1).map(|x| x.dig()),
            IOp::Nth2 => it.nth(2).map(|x| x.dig()),
            IOp::NthHuge(k) => {
                let ent = P::size_for(c).max(1);
                let n = [usize::MAX, usize::MAX / ent, usize::MAX / ent + 1, 1usize << 63][*k as usize];
                it.nth(n).map(|x| x.dig())
            }
            IOp::Get(i) => t.get(*i as usize).ok().map(|x| x.dig()),
            IOp::Len => Some(t.len() as u64 * 2 + t.is_empty() as u64),
            IOp::FreshIterFirst => t.iter().next().map(|x| x.dig()),
            IOp::SizeHintLower => Some(it.size_hint().0 as u64),
            IOp::Last | IOp::Count => unreachable!(),
        };
        res.push(r);
    }
    let mut f = Fnv::new();
    f.bytes(format!("{:?}", it).as_bytes());
    (res, f.get())
}

pub struct Sequences {
    pub depth: usize,
}
impl Space for Sequences {
    fn name(&self) -> String {
        format!("explicit-state exploration of (ParsingTable, ParsingIterator) under ops {{next, nth(0), nth(1), nth(2), nth(usize::MAX), nth(usize::MAX/entsize), nth(usize::MAX/entsize+1), nth(2^63), get(0..3), len/is_empty, fresh iter, size_hint}} to depth {} with de-duplication on the iterator's Debug state; 9 types x 4 encodings x byte lengths {{0, ent-1, ent, 2*ent+1, 3*ent, 4*ent-1}}", self.depth)
    }
    fn size(&self) -> u64 {
        9 * 4 * 6
    }
    fn describe(&self, idx: u64) -> Value {
        let d = unmix(idx, &[9, 4, 6]);
        json!({"type": TYPES[d[0] as usize].0, "encoding": ENCS[d[1] as usize].name(), "length_class": d[2], "sample_history": ["Next", "Nth1", "Get(0)"]})
    }
    fn run(&self, idx: u64, out: &mut Outcome) {
        let d = unmix(idx, &[9, 4, 6]);
        let (t, enc) = (d[0] as usize, ENCS[d[1] as usize]);
        let ent = entsize(t, enc);
        let blen = [0, ent - 1, ent, 2 * ent + 1, 3 * ent, 4 * ent - 1][d[2] as usize];
        let data = pattern(blen);
        let n = blen / ent;
        let truth: Vec<u64> = (0..n).map(|i| ref_entry(t, enc, &data, i)).collect();
        let who = TYPES[t].0;
        // BFS over histories, de-duplicated on (real iterator state, model cursor)
        let mut seen: HashSet<(u64, usize)> = HashSet::new();
        let mut q: VecDeque<(Vec<IOp>, usize)> = VecDeque::new();
        q.push_back((Vec::new(), 0));
        let mut states = 0u64;
        while let Some((hist, cursor)) = q.pop_front() {
            if hist.len() >= self.depth {
                continue;
            }
            for op in IOPS {
                let mut h = hist.clone();
                h.push(op);
                let r = match subject(|| per_type9!(t, run_hist, enc, &data, &h)) {
                    Err(m) => {
                        out.violate(format!("panic:ParsingIterator<{}> in {}", who, panic_site(&m)), format!("history {:?}: {}", h, m));
                        return;
                    }
                    Ok(r) => r,
                };
                out.transitions += 1;
                let (results, fp) = r;
                let got = *results.last().unwrap();
                // reference model: cursor over the whole entries
                let mut cur = cursor;
                let want: Option<u64> = match op {
                    IOp::Next | IOp::Nth0 | IOp::Nth1 | IOp::Nth2 => {
                        let skip = match op {
                            IOp::Nth1 => 1,
                            IOp::Nth2 => 2,
                            _ => 0,
                        };
                        let pos = cur + skip;
                        if pos < n {
                            cur = pos + 1;
                            Some(truth[pos])
                        } else {
                            cur = n;
                            None
                        }
                    }
                    IOp::NthHuge(_) => {
                        cur = n;
                        None
                    }
                    IOp::Get(i) => truth.get(i as usize).copied(),
                    IOp::Len => Some(n as u64 * 2 + (n == 0) as u64),
                    IOp::FreshIterFirst => truth.first().copied(),
                    IOp::SizeHintLower => None,
                    IOp::Last => {
                        let w = if cursor < n { Some(truth[n - 1]) } else { None };
                        cur = n;
                        w
                    }
                    IOp::Count => {
                        let w = Some((n - cursor.min(n)) as u64);
                        cur = n;
                        w
                    }
                };
                let ok = match op {
                    // size_hint's lower bound must never exceed what is really left
                    IOp::SizeHintLower => got.map(|l| l as usize <= n - cursor.min(n)).unwrap_or(false),
                    _ => got == want,
                };
                if !ok {
                    out.violate(
                        format!("history-dependent:{who}::{:?}", op),
                        format!("{} {} byte_len={}: after {:?} the op {:?} answered {} but the table's entries say {}", who, enc.name(), blen, hist, op, if got.is_some() { "Some/Ok" } else { "None/Err" }, if want.is_some() { "Some/Ok" } else { "None/Err" }),
                    );
                    return;
                }
                if !matches!(op, IOp::Last | IOp::Count) && seen.insert((fp, cur)) {
                    states += 1;
                    q.push_back((h, cur));
                }
            }
        }
        out.states += states;
        out.nontrivial(idx.wrapping_mul(0x9e37) ^ states << 32);
        out.count_n("iterator_states", states);
    }
}

/// Large tables: 70 000 entries; indexes around 2^8, 2^16 and the end; full iteration.
struct BigTables;
impl Space for BigTables {
    fn name(&self) -> String {
        "tables of 70 000 entries (+ a ragged tail) for the 9 entry types x 4 encodings: len, get(i) for i around 2^8, 2^16, len and the index alphabet, full iteration".into()
    }
    fn size(&self) -> u64 {
        36
    }
    fn describe(&self, idx: u64) -> Value {
        json!({"type": TYPES[(idx % 9) as usize].0, "encoding": ENCS[(idx / 9) as usize].name(), "entries": 70000})
    }
    fn run(&self, idx: u64, out: &mut Outcome) {
        let t = (idx % 9) as usize;
        let enc = ENCS[(idx / 9) as usize];
        let ent = entsize(t, enc);
        let n = 70_000usize;
        let blen = n * ent + ent / 2;
        let data: Vec<u8> = (0..blen).map(|i| ((i as u64).wrapping_mul(0x9e3779b97f4a7c15) >> 56) as u8).collect();
        let mut idxs: Vec<usize> = vec![0, 1, 254, 255, 256, 257, 65534, 65535, 65536, 65537, 69_998, 69_999, 70_000, 70_001];
        idxs.extend(index_alphabet(n, ent));
        let obs = match subject(|| per_type9!(t, observe_table, enc, &data, &idxs)) {
            Err(m) => {
                out.violate(format!("panic:ParsingTable<{}> in {}", TYPES[t].0, panic_site(&m)), m);
                return;
            }
            Ok(o) => o,
        };
        out.transitions += (idxs.len() + 3 * n) as u64;
        let who = TYPES[t].0;
        if obs.len != n {
            out.violate(format!("len:{who}"), format!("70000-entry table: len() = {}", obs.len));
        }
        for (k, i) in idxs.iter().enumerate() {
            let want = if *i < n { Some(ref_entry(t, enc, &data, *i)) } else { None };
            if obs.gets[k] != want {
                out.violate(format!("get:{who}"), format!("70000-entry {} table: get({}) wrong", enc.name(), i));
                break;
            }
        }
        for (name, items) in [("iter", &obs.iter), ("into_iter", &obs.into_iter), ("ParsingIterator", &obs.bare)] {
            if items.len() != n || items[65536] != ref_entry(t, enc, &data, 65536) || items[n - 1] != ref_entry(t, enc, &data, n - 1) {
                out.violate(format!("{name}:{who}"), format!("70000-entry {} table: {name} yields {} items or wrong items at 65536 / the end", enc.name(), items.len()));
            }
        }
        out.nontrivial(idx ^ 0x70000);
    }
}

/// The same coherence through ElfBytes: relocation sections (whose sh_entsize nobody validates)
/// and dynamic tables reached through the section and through PT_DYNAMIC alone.
pub struct FileTables;
const FT_ENTSIZES: [u64; 9] = [u64::MAX, 0, 1, 7, 8, 12, 16, 24, 48]; // MAX = the structure's own size
impl FileTables {
    fn dims() -> [u64; 5] {
        // enc, kind {REL, RELA, DYNAMIC by section, DYNAMIC by segment only, SYMTAB, DYNSYM}, whole entries 0..=5, ragged tail class,
        // declared sh_entsize (relocations) / sh_flags variant (symbol tables)
        [4, 6, 6, 3, FT_ENTSIZES.len() as u64]
    }
}
impl Space for FileTables {
    fn name(&self) -> String {
        "ElfBytes and ElfStream: section_data_as_rels / section_data_as_relas / dynamic() via .dynamic / dynamic() and find_common_data() via PT_DYNAMIC alone on generated files: 0..=5 whole entries + a ragged tail of {0, 1, entsize-1} bytes x declared sh_entsize in {own size, 0, 1, 7, 8, 12, 16, 24, 48} (relocations only) x 4 encodings; the entries yielded are exactly the whole entries of the bytes, in order; symbol_table / dynamic_symbol_table / find_common_data (both parsers) on 1..=5 symbols under sh_flags in {0, ALLOC, TLS, EXECINSTR, MERGE|STRINGS}".into()
    }
    fn size(&self) -> u64 {
        product(&Self::dims())
    }
    fn describe(&self, idx: u64) -> Value {
        let d = unmix(idx, &Self::dims());
        let kind = ["SHT_REL", "SHT_RELA", ".dynamic section", "PT_DYNAMIC only", "SHT_SYMTAB", "SHT_DYNSYM"][d[1] as usize];
        json!({"encoding": ENCS[d[0] as usize].name(), "table": kind, "whole_entries": d[2], "ragged_tail_class": d[3], "declared_entsize": if d[4] == 0 { "own".to_string() } else { FT_ENTSIZES[d[4] as usize].to_string() }})
    }
    fn run(&self, idx: u64, out: &mut Outcome) {
        use refmodel::image::*;
        use refmodel::layout::{PT_DYNAMIC, SHT_DYNAMIC, SHT_PROGBITS, SHT_REL, SHT_RELA};
        let d = unmix(idx, &Self::dims());
        let enc = ENCS[d[0] as usize];
        let kind = d[1] as usize;
        if kind >= 4 {
            return self.run_symtab(idx, out);
        }
        let (t, k) = match kind {
            0 => (7usize, Kind::Rel),
            1 => (8, Kind::Rela),
            _ => (3, Kind::Dyn),
        };
        let ent = layout(k, enc.class).size;
        if kind >= 2 && d[4] != 0 {
            out.count("entsize_variants_apply_to_relocations_only");
            return;
        }
        let n = d[2] as usize;
        let tail = [0, 1, ent - 1][d[3] as usize];
        let blen = n * ent + tail;
        let body: Vec<u8> = (0..blen).map(|i| (i as u8).wrapping_mul(29) ^ 0xa5 ^ ((i >> 2) as u8)).collect();
        let declared = if d[4] == 0 { ent as u64 } else { FT_ENTSIZES[d[4] as usize] };
        let mut spec = Spec::new(enc, TableOrder::TablesFirst);
        let bytes: Vec<u8>;
        let range: (usize, usize);
        if kind == 3 {
            // program headers only; the table's bytes follow the headers
            spec.no_shdrs = true;
            let ehsz = layout(Kind::Ehdr, enc.class).size as u64;
            let phsz = layout(Kind::Phdr, enc.class).size as u64;
            // p_memsz below / equal to / above p_filesz: the file bytes are p_filesz long whatever the memory image is
            let memsz_extra = [0u64.wrapping_sub((blen as u64).min(ent as u64)), 0, 24][idx as usize % 3];
            spec.segs = vec![Seg { p_type: PT_DYNAMIC, flags: 6, vaddr: 0, paddr: 0, align: 8, memsz_extra, target: SegTarget::Range { offset: ehsz + phsz, filesz: blen as u64 } }];
            let mut b = build(&spec);
            let a = b.bytes.len();
            assert_eq!(a as u64, ehsz + phsz);
            b.bytes.extend_from_slice(&body);
            b.bytes.extend_from_slice(&[0xEE; 5]);
            range = (a, a + blen);
            bytes = b.bytes;
        } else {
            let ty = [SHT_REL, SHT_RELA, SHT_DYNAMIC][kind];
            spec.secs = vec![Sec::new(b".tab", ty, body.clone()).entsize(declared), Sec::new(b".pad", SHT_PROGBITS, vec![0xEE; 5])];
            let b = build(&spec);
            let (o, z) = b.sec_range(1);
            range = (o as usize, (o + z) as usize);
            bytes = b.bytes;
        }
        let data = &bytes[range.0..range.1];
        let truth: Vec<u64> = (0..n).map(|i| ref_entry(t, enc, data, i)).collect();
        let ctx = format!("{} {} with {} whole entries + {} bytes, declared sh_entsize {}", enc.name(), ["SHT_REL", "SHT_RELA", ".dynamic section", "PT_DYNAMIC only"][kind], n, tail, declared);
        let r = subject(|| {
            let f = elf::ElfBytes::<AnyEndian>::minimal_parse(&bytes).ok()?;
            let cap = blen + 2;
            Some(match kind {
                0 => {
                    let h = f.section_headers()?.get(1).ok()?;
                    vec![("section_data_as_rels", f.section_data_as_rels(&h).ok().map(|it| it.take(cap).map(|x| x.dig()).collect::<Vec<u64>>()))]
                }
                1 => {
                    let h = f.section_headers()?.get(1).ok()?;
                    vec![("section_data_as_relas", f.section_data_as_relas(&h).ok().map(|it| it.take(cap).map(|x| x.dig()).collect::<Vec<u64>>()))]
                }
                _ => {
                    let a = f.dynamic().ok().flatten().map(|t| (t.len(), t.iter().take(cap).map(|x| x.dig()).collect::<Vec<u64>>()));
                    let c = f.find_common_data().ok().and_then(|c| c.dynamic).map(|t| (t.len(), t.iter().take(cap).map(|x| x.dig()).collect::<Vec<u64>>()));
                    let mut v = Vec::new();
                    for (name, x) in [("dynamic()", a), ("find_common_data().dynamic", c)] {
                        v.push((name, x.map(|(len, items)| if len == items.len() { items } else { vec![u64::MAX; len + 1000] })));
                    }
                    v
                }
            })
        });
        // the stream parser's views of the same file
        let rs = subject(|| {
            let mut f = elf::ElfStream::<AnyEndian, _>::open_stream(std::io::Cursor::new(bytes.clone())).ok()?;
            let cap = blen + 2;
            Some(match kind {
                0 => {
                    let h = *f.section_headers().get(1)?;
                    ("ElfStream::section_data_as_rels", f.section_data_as_rels(&h).ok().map(|it| it.take(cap).map(|x| x.dig()).collect::<Vec<u64>>()))
                }
                1 => {
                    let h = *f.section_headers().get(1)?;
                    ("ElfStream::section_data_as_relas", f.section_data_as_relas(&h).ok().map(|it| it.take(cap).map(|x| x.dig()).collect::<Vec<u64>>()))
                }
                _ => ("ElfStream::dynamic()", f.dynamic().ok().flatten().map(|t| t.iter().take(cap).map(|x| x.dig()).collect::<Vec<u64>>())),
            })
        });
        match rs {
            Err(m) => out.violate(format!("panic:ElfStream tables in {}", panic_site(&m)), m),
            Ok(None) => out.violate("file-tables:generated file does not open as a stream", ctx.clone()),
            Ok(Some((name, got))) => match got {
                None => {
                    if !(kind >= 2 && blen == 0) {
                        out.violate(format!("file-tables:{name} fails"), ctx.clone());
                    }
                }
                Some(items) => {
                    if items != truth {
                        out.violate(format!("file-tables:{name}"), format!("{ctx}: {} entries are yielded{}, the bytes hold {} whole entries", items.len(), if items.len() == truth.len() { " (contents differ)" } else { "" }, truth.len()));
                    }
                }
            },
        }
        out.transitions += 3;
        match r {
            Err(m) => out.violate(format!("panic:ElfBytes tables in {}", panic_site(&m)), m),
            Ok(None) => out.violate("file-tables:generated file does not open", ctx),
            Ok(Some(views)) => {
                for (name, got) in views {
                    match got {
                        None => {
                            // an empty PT_DYNAMIC / .dynamic may be reported as absent
                            if !(kind >= 2 && blen == 0) {
                                out.violate(format!("file-tables:{name} fails"), ctx.clone());
                            }
                        }
                        Some(items) => {
                            if items != truth {
                                out.violate(format!("file-tables:{name}"), format!("{ctx}: {} entries are yielded{}, the bytes hold {} whole entries", items.len(), if items.len() == truth.len() { " (contents differ)" } else { "" }, truth.len()));
                            }
                        }
                    }
                }
                if n > 0 {
                    out.nontrivial(idx ^ 0xf17e);
                }
            }
        }
    }
}

impl FileTables {
    /// Symbol tables reached through the file: the table is the whole entries of the section's bytes
    /// whatever flags the section header carries (SHF_ALLOC, SHF_COMPRESSED, ...); both parsers.
    fn run_symtab(&self, idx: u64, out: &mut Outcome) {
        use refmodel::image::*;
        use refmodel::layout::{SHT_DYNSYM, SHT_STRTAB, SHT_SYMTAB};
        let d = unmix(idx, &Self::dims());
        if d[4] >= 5 {
            out.count("five_flag_variants_for_symbol_tables");
            return;
        }
        let enc = ENCS[d[0] as usize];
        let dynsym = d[1] == 5;
        let ent = layout(Kind::Sym, enc.class).size;
        let n = d[2] as usize;
        let tail = [0, 1, ent - 1][d[3] as usize];
        if n == 0 || tail != 0 {
            // symbol tables of ragged size are rejected or accepted alike by both parsers (C05 / C07)
            out.count("symbol_tables_with_whole_entries_only");
            return;
        }
        // SHF_COMPRESSED is left out on purpose: what a compressed symbol table means is not specified
        // (C07 scopes such sections out for the same reason)
        let flags = [0u64, 2, 0x400, 0x4, 0x30][d[4] as usize];
        let body: Vec<u8> = (0..n * ent).map(|i| (i as u8).wrapping_mul(29) ^ 0xa5 ^ ((i >> 2) as u8)).collect();
        let mut spec = Spec::new(enc, TableOrder::TablesFirst);
        spec.secs = vec![
            Sec::new(b".tab", if dynsym { SHT_DYNSYM } else { SHT_SYMTAB }, body.clone()).entsize(ent as u64).link(2).flags(flags),
            Sec::new(b".str", SHT_STRTAB, b"\0abc\0".to_vec()),
        ];
        let bytes = build(&spec).bytes;
        let truth: Vec<u64> = (0..n).map(|i| ref_entry(2, enc, &body, i)).collect();
        let ctx = format!("{} {} with {} entries and sh_flags {:#x}", enc.name(), if dynsym { "SHT_DYNSYM" } else { "SHT_SYMTAB" }, n, flags);
        let r = subject(|| {
            let f = elf::ElfBytes::<AnyEndian>::minimal_parse(&bytes).ok()?;
            let a = if dynsym { f.dynamic_symbol_table() } else { f.symbol_table() }.ok().flatten().map(|(t, _)| t.iter().map(|x| x.dig()).collect::<Vec<u64>>());
            let c = f.find_common_data().ok().and_then(|c| if dynsym { c.dynsyms } else { c.symtab }).map(|t| t.iter().map(|x| x.dig()).collect::<Vec<u64>>());
            let mut s = elf::ElfStream::<AnyEndian, _>::open_stream(std::io::Cursor::new(bytes.clone())).ok()?;
            let st = if dynsym { s.dynamic_symbol_table() } else { s.symbol_table() }.ok().flatten().map(|(t, _)| t.iter().map(|x| x.dig()).collect::<Vec<u64>>());
            Some(vec![("ElfBytes targeted accessor", a), ("find_common_data", c), ("ElfStream accessor", st)])
        });
        out.transitions += 3;
        match r {
            Err(m) => out.violate(format!("panic:symbol table accessors in {}", panic_site(&m)), m),
            Ok(None) => out.violate("file-tables:generated file does not open", ctx),
            Ok(Some(views)) => {
                for (name, got) in views {
                    match got {
                        None => out.violate(format!("file-tables:{name} yields no symbol table"), ctx.clone()),
                        Some(items) => {
                            if items != truth {
                                out.violate(format!("file-tables:{name}"), format!("{ctx}: {} entries are yielded{}, the section holds {}", items.len(), if items.len() == truth.len() { " (contents differ)" } else { "" }, truth.len()));
                            }
                        }
                    }
                }
                out.nontrivial(idx ^ 0x5717);
            }
        }
    }
}

pub fn build(tier: Tier) -> CheckDef {
    CheckDef {
        prop: "C09",
        level: "model_checking",
        rule: "complete grid of ragged table lengths x entry types x encodings x index alphabet against the reference decode (len = floor(bytes/entsize), get(i) Ok iff i < len, iteration = the whole entries in order); explicit-state exploration of iterator/table operation histories (states de-duplicated on the iterator's Debug state + the reference cursor) checking that no answer depends on history. non-trivial = table with at least one whole entry".into(),
        assumptions: vec!["entry contents are compared through the public fields of each type".into()],
        spaces: vec![Box::new(Grid { full: tier == Tier::Thorough }), Box::new(Sequences { depth: tier.pick(4, 6) }), Box::new(BigTables), Box::new(FileTables)],
        abort_is_violation: false,
        hang_is_violation: true,
        exhaustive: true,
        bounds: json!({"history_depth": tier.pick(4, 6)}),
    }
}
