//! C16 — adversarial link structures, enumerated completely at small scope, plus 64 KiB scale families.
use super::common::*;
use super::slice_oracles::panic_site;
use crate::alloc::subject;
use crate::framework::*;
use crate::util::*;
use elf::gnu_symver::*;
use elf::hash::{GnuHashTable, SysVHashTable};
use elf::string_table::StringTable;
use elf::symbol::SymbolTable;
use refmodel::hashes::*;
use refmodel::layout::{encode, put, Kind, ENCS};
use serde_json::{json, Value};
use std::time::Instant;

/// set by C06: the same structures are then also required to make no heap allocation
pub static ZERO_ALLOC_MODE: std::sync::atomic::AtomicBool = std::sync::atomic::AtomicBool::new(false);

fn timed<T>(out: &mut Outcome, what: &str, f: impl FnOnce() -> T) -> Option<T> {
    let t0 = Instant::now();
    crate::alloc::reset_stats();
    let r = subject(f);
    let st = crate::alloc::stats();
    if ZERO_ALLOC_MODE.load(std::sync::atomic::Ordering::Relaxed) && st.calls > 0 && r.is_ok() {
        out.violate(format!("alloc:{what}"), format!("{} heap allocation call(s), largest {} bytes", st.calls, st.max_req));
    }
    out.alloc_calls += st.calls;
    let us = t0.elapsed().as_micros() as u64;
    out.transitions += 1;
    let prev = out.extra.get("max_call_micros").and_then(|v| v.as_u64()).unwrap_or(0);
    if us > prev {
        out.extra.insert("max_call_micros".into(), json!(us));
        out.extra.insert("max_call_what".into(), json!(what));
    }
    if us > 5_000_000 {
        out.violate(format!("slow:{what}"), format!("{us} us for an input of at most 64 KiB"));
    }
    match r {
        Ok(v) => Some(v),
        Err(m) => {
            out.violate(format!("panic:{} in {}", what, panic_site(&m)), m);
            None
        }
    }
}

/// All functional graphs on n chain slots x bucket head, SysV.
struct SysvGraphs {
    n: u32,
}
impl Space for SysvGraphs {
    fn name(&self) -> String {
        format!("SysVHashTable::find on every chain array chain[0..{n}] -> 0..{n} (all {n}^{n} functional graphs: every cycle length, self-loops) x every bucket head x present/absent name x symbol names {{all readable, none readable, every other one readable}}", n = self.n)
    }
    fn size(&self) -> u64 {
        (self.n as u64).pow(self.n) * self.n as u64
    }
    fn describe(&self, idx: u64) -> Value {
        let n = self.n as u64;
        let head = idx % n;
        let g = idx / n;
        let chain: Vec<u64> = (0..self.n).map(|i| (g / n.pow(i)) % n).collect();
        json!({"bucket_head": head, "chain": chain})
    }
    fn run(&self, idx: u64, out: &mut Outcome) {
        let n = self.n as u64;
        let head = idx % n;
        let g = idx / n;
        let names: Vec<Vec<u8>> = (0..n).map(|i| if i == 0 { vec![] } else { vec![b'a' + i as u8] }).collect();
        let mut dig = Fnv::new();
        for enc in [ENCS[0], ENCS[3]] {
            let mut sect = Vec::new();
            let mut w = [0u8; 4];
            for v in [1u64, n, head].into_iter().chain((0..self.n).map(|i| (g / n.pow(i)) % n)) {
                put(&mut w, 0, 4, enc.order, v);
                sect.extend_from_slice(&w);
            }
            let (strs, offs) = build_strtab(&names);
            let e = if enc.order == Order::Lsb { AnyEndian::Little } else { AnyEndian::Big };
            let class = class_of(enc);
            // the same graph three times: every name readable, no name readable (offsets beyond the
            // string table), names readable on even symbols only
            for mode in 0..3u64 {
            let offs2: Vec<u32> = offs.iter().enumerate().map(|(i, o)| if mode == 1 || (mode == 2 && i % 2 == 1) { strs.len() as u32 + 5 + i as u32 } else { *o }).collect();
            let symb = build_symtab(enc, &offs2);
            let symtab = SymbolTable::new(e, class, &symb);
            let strtab = StringTable::new(&strs);
            for name in [&b"zz"[..], &names[(n - 1) as usize][..], &b""[..]] {
                let r = timed(out, "SysVHashTable::find", || {
                    SysVHashTable::new(e, class, &sect).ok().map(|t| match t.find(name, &symtab, &strtab) {
                        Ok(Some((i, _))) => 2 + i as u64,
                        Ok(None) => 1,
                        Err(_) => 0,
                    })
                });
                dig.u64(r.flatten().unwrap_or(99));
            }
            }
        }
        out.nontrivial(dig.get() ^ idx);
    }
}

/// GNU chains: every stop-bit / hash-match pattern of length len, every start.
struct GnuChains {
    len: u32,
}
impl Space for GnuChains {
    fn name(&self) -> String {
        format!("GnuHashTable::find on every chain of {} words whose low bit (stop) and remaining bits (match / no match with the queried hash) take all 4^{} combinations x bucket start 0..={}", self.len, self.len, self.len + 1)
    }
    fn size(&self) -> u64 {
        4u64.pow(self.len) * (self.len as u64 + 2)
    }
    fn describe(&self, idx: u64) -> Value {
        let starts = self.len as u64 + 2;
        json!({"bucket_start": idx % starts, "pattern_base4": format!("{:o}", idx / starts)})
    }
    fn run(&self, idx: u64, out: &mut Outcome) {
        let starts = self.len as u64 + 2;
        let start = idx % starts;
        let pat = idx / starts;
        let query: &[u8] = b"q";
        let h = gnu_hash(query);
        let mut dig = Fnv::new();
        for enc in [ENCS[1], ENCS[2]] {
            let wsz = enc.word();
            let mut sect = Vec::new();
            let mut w4 = [0u8; 4];
            // nbucket 1, symoffset 1, bloom 1 word all ones, shift 0
            for v in [1u64, 1, 1, 0] {
                put(&mut w4, 0, 4, enc.order, v);
                sect.extend_from_slice(&w4);
            }
            sect.extend_from_slice(&vec![0xffu8; wsz]);
            put(&mut w4, 0, 4, enc.order, start);
            sect.extend_from_slice(&w4);
            for i in 0..self.len {
                let c = (pat >> (2 * i)) & 3;
                let base = if c & 2 != 0 { h & !1 } else { (h ^ 0x10) & !1 };
                put(&mut w4, 0, 4, enc.order, (base | (c as u32 & 1)) as u64);
                sect.extend_from_slice(&w4);
            }
            // symbols: null + len symbols, none named "q" except the last
            let mut names: Vec<Vec<u8>> = vec![vec![]];
            for i in 0..self.len {
                names.push(if i + 1 == self.len { b"q".to_vec() } else { vec![b'x', b'0' + i as u8] });
            }
            let (strs, offs) = build_strtab(&names);
            let symb = build_symtab(enc, &offs);
            let e = if enc.order == Order::Lsb { AnyEndian::Little } else { AnyEndian::Big };
            let class = class_of(enc);
            let symtab = SymbolTable::new(e, class, &symb);
            let strtab = StringTable::new(&strs);
            for name in [query, &b"absent"[..]] {
                let r = timed(out, "GnuHashTable::find", || {
                    GnuHashTable::new(e, class, &sect).ok().map(|t| match t.find(name, &symtab, &strtab) {
                        Ok(Some((i, _))) => 2 + i as u64,
                        Ok(None) => 1,
                        Err(_) => 0,
                    })
                });
                dig.u64(r.flatten().unwrap_or(99));
            }
        }
        out.nontrivial(dig.get() ^ idx);
    }
}

/// Version record lists of 3 records: every next in {0, 1, half, size, 2*size, past-end, 2^32-1}
/// per record x count alphabet; item counts must respect bytes and declared count.
struct VerLists;
const NEXTS: [u64; 7] = [0, 1, 8, 16, 32, 4096, 0xffff_ffff];
const CNTS: [u64; 6] = [0, 1, 3, 4, 0xffff, u64::MAX];
impl Space for VerLists {
    fn name(&self) -> String {
        "VerNeed/VerDef iterators + aux iterators over 3-record lists: next of every record in {0,1,8,16,32,4096,2^32-1}^3 x aux-next in the same set or landing 1/15/16 bytes before the section end x declared count in {0,1,3,4,0xffff,u64::MAX}".into()
    }
    fn size(&self) -> u64 {
        7 * 7 * 7 * 10 * 6 * 2
    }
    fn describe(&self, idx: u64) -> Value {
        let d = unmix(idx, &[7, 7, 7, 10, 6, 2]);
        json!({"kind": if d[5] == 0 {"verneed"} else {"verdef"}, "next": [NEXTS[d[0] as usize], NEXTS[d[1] as usize], NEXTS[d[2] as usize]], "aux_next": if d[3] < 7 { json!(NEXTS[d[3] as usize]) } else { json!(format!("lands {} byte(s) before the end of the section", [1, 15, 16][d[3] as usize - 7])) }, "declared_count": CNTS[d[4] as usize]})
    }
    fn run(&self, idx: u64, out: &mut Outcome) {
        let d = unmix(idx, &[7, 7, 7, 10, 6, 2]);
        let need = d[5] == 0;
        let count = CNTS[d[4] as usize];
        let enc = ENCS[(idx % 4) as usize];
        let e = if enc.order == Order::Lsb { AnyEndian::Little } else { AnyEndian::Big };
        let class = class_of(enc);
        let hs = if need { 16 } else { 20 };
        let total = 3 * 32 + 16;
        let mut b = vec![0u8; total];
        for k in 0..3 {
            let off = 32 * k;
            let next = NEXTS[d[k] as usize];
            let cnt = if k % 2 == 0 { 1 } else { 0xffff };
            let vals: Vec<u64> = if need { vec![1, cnt, 1, hs as u64, next] } else { vec![1, 0, 5 + k as u64, cnt, 7, hs as u64, next] };
            let rec = encode(if need { Kind::Verneed } else { Kind::Verdef }, enc, &vals, 0);
            b[off..off + hs].copy_from_slice(&rec);
            // fixed alphabet, or a link that lands 1 / 15 / 16 bytes before the end of the section
            let an = if d[3] < 7 { NEXTS[d[3] as usize] } else { (total - (off + hs) - [1usize, 15, 16][d[3] as usize - 7]) as u64 };
            let aux = if need { encode(Kind::Vernaux, enc, &[1, 0, 9, 1, an], 0) } else { encode(Kind::Verdaux, enc, &[1, an], 0) };
            let alen = aux.len().min(32 - hs);
            b[off + hs..off + hs + alen].copy_from_slice(&aux[..alen]);
        }
        let cap = total as u64;
        let r = timed(out, if need { "VerNeedIterator" } else { "VerDefIterator" }, || {
            let mut items = 0u64;
            let mut worst_aux = 0u64;
            let mut over_cnt = 0u64;
            if need {
                for (vn, ai) in VerNeedIterator::new(e, class, count, 0, &b) {
                    items += 1;
                    let mut n = 0u64;
                    for _ in ai {
                        n += 1;
                        if n > cap + 2 {
                            break;
                        }
                    }
                    if n > vn.vn_cnt as u64 {
                        over_cnt += 1;
                    }
                    worst_aux = worst_aux.max(n);
                    if items > cap + 2 {
                        break;
                    }
                }
            } else {
                for (vd, ai) in VerDefIterator::new(e, class, count, 0, &b) {
                    items += 1;
                    let mut n = 0u64;
                    for _ in ai {
                        n += 1;
                        if n > cap + 2 {
                            break;
                        }
                    }
                    if n > vd.vd_cnt as u64 {
                        over_cnt += 1;
                    }
                    worst_aux = worst_aux.max(n);
                    if items > cap + 2 {
                        break;
                    }
                }
            }
            (items, worst_aux, over_cnt)
        });
        if let Some((items, aux, over_cnt)) = r {
            let which = if need { "VerNeedIterator" } else { "VerDefIterator" };
            if over_cnt > 0 {
                out.violate(format!("count-exceeded:{which} aux list"), format!("{over_cnt} record(s) yielded more aux entries than their declared vd_cnt/vn_cnt"));
            }
            if items > count {
                out.violate(format!("count-exceeded:{which}"), format!("{items} records from a declared count of {count}"));
            }
            if items > cap || aux > cap {
                out.violate(format!("runaway:{which}"), format!("{items} records / {aux} aux entries from {cap} bytes"));
            }
            out.count(&format!("records_{}", items.min(4)));
            out.nontrivial(idx ^ (items << 50) ^ (aux << 30));
        }
    }
}

/// 64 KiB scale families (one case each).
struct Scale;
impl Space for Scale {
    fn name(&self) -> String {
        "64 KiB scale families: SysV cycle through 16383 chain slots; GNU chain of 16000 words without stop bit; 2047 verneed records x overlapping aux lists of 8189 entries each (stride 4, cnt=0xffff); count 2^32-1 with next=0; all-collision GNU chain".into()
    }
    fn size(&self) -> u64 {
        5
    }
    fn chunk_hint(&self) -> u64 {
        1
    }
    fn describe(&self, idx: u64) -> Value {
        let fam = ["sysv-cycle-16383", "gnu-no-stop-16000", "verneed-2047x-overlapping-aux", "count-2^32-1-next-0", "gnu-all-match-16000"][idx as usize];
        json!({"family": fam})
    }
    fn run(&self, idx: u64, out: &mut Outcome) {
        let enc = ENCS[2];
        let e = AnyEndian::Little;
        let class = class_of(enc);
        let mut w4 = [0u8; 4];
        match idx {
            0 => {
                let n = 16383u64;
                let mut sect = Vec::with_capacity(65536);
                for v in [1u64, n, 1].into_iter().chain((0..n).map(|i| if i == 0 { 0 } else if i + 1 < n { i + 1 } else { 1 })) {
                    put(&mut w4, 0, 4, enc.order, v);
                    sect.extend_from_slice(&w4);
                }
                let names: Vec<Vec<u8>> = (0..n).map(|i| if i == 0 { vec![] } else { vec![b'n'] }).collect();
                let offs: Vec<u32> = names.iter().map(|n| if n.is_empty() { 0 } else { 1 }).collect();
                let strs = b"\0n\0".to_vec();
                let symb = build_symtab(enc, &offs);
                let symtab = SymbolTable::new(e, class, &symb);
                let strtab = StringTable::new(&strs);
                let r = timed(out, "SysVHashTable::find (16383-slot cycle)", || {
                    SysVHashTable::new(e, class, &sect).ok().map(|t| t.find(b"absent", &symtab, &strtab).map(|x| x.is_some()).unwrap_or(false))
                });
                if r != Some(Some(false)) {
                    out.violate("scale:sysv-cycle", format!("unexpected result {:?}", r));
                }
            }
            1 | 4 => {
                let n = 16000u64;
                let q: &[u8] = b"q";
                let h = gnu_hash(q);
                let mut sect = Vec::with_capacity(65536);
                for v in [1u64, 1, 1, 0] {
                    put(&mut w4, 0, 4, enc.order, v);
                    sect.extend_from_slice(&w4);
                }
                sect.extend_from_slice(&[0xff; 8]);
                put(&mut w4, 0, 4, enc.order, 1);
                sect.extend_from_slice(&w4);
                for _ in 0..n {
                    let word = if idx == 4 { h & !1 } else { (h ^ 0x100) & !1 };
                    put(&mut w4, 0, 4, enc.order, word as u64);
                    sect.extend_from_slice(&w4);
                }
                let offs: Vec<u32> = (0..=n).map(|i| if i == 0 { 0 } else { 1 }).collect();
                let strs = b"\0other\0".to_vec();
                let symb = build_symtab(enc, &offs);
                let symtab = SymbolTable::new(e, class, &symb);
                let strtab = StringTable::new(&strs);
                let r = timed(out, "GnuHashTable::find (16000-word chain without stop bit)", || {
                    GnuHashTable::new(e, class, &sect).ok().map(|t| t.find(q, &symtab, &strtab).map(|x| x.is_some()).unwrap_or(false))
                });
                if r != Some(Some(false)) {
                    out.violate("scale:gnu-chain", format!("unexpected result {:?}", r));
                }
            }
            2 => {
                // first half: 2047 verneed records (stride 16); second half: a run of overlapping aux
                // records with stride 4 (every aligned u32 is 4, so vna_next = 4, vna_other = 0)
                let nrec = 2047usize;
                let mut b = vec![0u8; 65536];
                for k in 0..nrec {
                    let off = 16 * k;
                    let next = if k + 1 < nrec { 16 } else { 0 };
                    let rec = encode(Kind::Verneed, enc, &[1, 0xffff, 1, (32768 - off) as u64, next], 0);
                    b[off..off + 16].copy_from_slice(&rec);
                }
                for i in (32768..65536).step_by(4) {
                    b[i] = 4;
                }
                let strs = b"\0a\0".to_vec();
                let versym = [5u8, 0];
                let r = timed(out, "SymbolVersionTable::get_requirement (2047 records x 8189-entry overlapping aux lists)", || {
                    let ids = VersionIndexTable::new(e, class, &versym);
                    let t = SymbolVersionTable::new(ids, Some((VerNeedIterator::new(e, class, 0xffff_ffff, 0, &b), StringTable::new(&strs))), None);
                    t.get_requirement(0).map(|x| x.is_some()).unwrap_or(false)
                });
                if r.is_none() {
                    out.count("scale_verneed_panicked");
                }
                // item-count clause on the same structure
                let r = timed(out, "VerNeedIterator (item count)", || {
                    let mut items = 0u64;
                    for (_, ai) in VerNeedIterator::new(e, class, 0xffff_ffff, 0, &b) {
                        items += 1;
                        let mut n = 0u64;
                        for _ in ai {
                            n += 1;
                        }
                        if n > 65536 {
                            return u64::MAX;
                        }
                    }
                    items
                });
                if let Some(items) = r {
                    if items > 65536 {
                        out.violate("runaway:VerNeedIterator(scale)", format!("{items} items from 65536 bytes"));
                    }
                }
            }
            _ => {
                let mut b = vec![0u8; 65536];
                let rec = encode(Kind::Verdef, enc, &[1, 0, 2, 0xffff, 7, 20, 0], 0);
                b[..20].copy_from_slice(&rec);
                let r = timed(out, "VerDefIterator (count 2^32-1, next 0)", || VerDefIterator::new(e, class, 0xffff_ffff, 0, &b).count() as u64);
                if let Some(n) = r {
                    if n > 1 {
                        out.violate("runaway:VerDefIterator(next=0)", format!("{n} records although next = 0"));
                    }
                }
            }
        }
        out.nontrivial(idx + 7);
    }
}

pub fn spaces(tier: Tier) -> Vec<Box<dyn Space>> {
    let mut v: Vec<Box<dyn Space>> = Vec::new();
    for n in 1..=tier.pick(4, 6) {
        v.push(Box::new(SysvGraphs { n }));
    }
    v.push(Box::new(GnuChains { len: tier.pick(5, 7) }));
    v.push(Box::new(VerLists));
    v.push(Box::new(Scale));
    v
}
