//! C07 — stream parser and slice parser are observationally equivalent.
use super::lattice_cfg::lattice_spaces;
use super::stream_props::*;
use crate::framework::*;
use serde_json::json;

pub fn build(tier: Tier) -> CheckDef {
    let mut spaces: Vec<Box<dyn Space>> = vec![Box::new(StreamSpace { which: Which::C07, cases: stream_cases(tier, Which::C07), threads: tier.pick(4, 8), budget_secs: tier.pick(150, 7200) })];
    spaces.push(Box::new(HugeOpen { which: Which::C07 }));
    spaces.push(Box::new(Occupancy { which: Which::C07, max: tier.pick(72, 100) }));
    spaces.push(Box::new(OccupancyBig { which: Which::C07 }));
    spaces.push(Box::new(HugeSession { which: Which::C07, depth: tier.pick(2, 3), encs: tier.pick(1, 2) }));
    let (l, b) = lattice_spaces(tier, StreamLattice { which: Which::C07, open_dev: tier == Tier::Thorough }, "C07 stream == slice");
    spaces.extend(l);
    CheckDef {
        prop: "C07",
        level: "model_checking",
        rule: "explicit-state BFS (stateright) over the real ElfStream: every reachable (cache contents, reader position) state x every op x every legal reader answer within the deviation budget, each transition compared with the slice parser on the same bytes; plus engine L: on every lattice variant open_stream must succeed iff minimal_parse does, with equal headers, and every op once on the opened stream must agree. states = unique canonical stream states (S) + distinct variants (L)".into(),
        assumptions: vec![
            "state fingerprint = canonicalised Debug text of ElfStream (all fields incl. cache keys and buffer contents) + reader position + env mode; merged states have identical futures because nothing else is stored".into(),
            "query clause scoped as the property states: ops on SHF_COMPRESSED sections and files with a present-but-empty section header table are excluded; error kinds are not compared".into(),
            "reader deviations: short reads {1,2,n/2,n-2,n-1} and Interrupted (1 or 2 in a row) at every I/O call".into(),
        ],
        spaces,
        abort_is_violation: true,
        hang_is_violation: false,
        exhaustive: true,
        bounds: json!({"lattice": b.text, "reader_deviations_per_transition": tier.pick(1, 2), "fixpoint_images": "s-small, s-phdrs-only (all tiers), s-symver (thorough)", "depth_capped": "tiny-full (3 ops quick / 4 ops thorough), s-symver (3 ops, quick)"}),
    }
}
