//! C10 — byte-order specs gate files; ident defects are reported as what they are.
use super::common::*;
use super::lattice_cfg::lattice_spaces;
use super::slice_oracles::{panic_site, AnyVsFixed};
use crate::alloc::subject;
use crate::framework::*;
use crate::skeleton::*;
use crate::util::*;
use elf::{ElfBytes, ElfStream, ParseError};
use serde_json::{json, Value};
use std::io::Cursor;

#[derive(Clone, Debug, PartialEq, Eq)]
enum Outcome3 {
    Ok,
    BadMagic([u8; 4]),
    Class(u8),
    Endian(u8),
    Version(u64, u64),
    OtherErr,
    Panic(String),
}

fn classify<T>(r: Result<Result<T, ParseError>, String>) -> Outcome3 {
    match r {
        Err(m) => Outcome3::Panic(m),
        Ok(Ok(_)) => Outcome3::Ok,
        Ok(Err(ParseError::BadMagic(m))) => Outcome3::BadMagic(m),
        Ok(Err(ParseError::UnsupportedElfClass(c))) => Outcome3::Class(c),
        Ok(Err(ParseError::UnsupportedElfEndianness(c))) => Outcome3::Endian(c),
        Ok(Err(ParseError::UnsupportedVersion((a, b)))) => Outcome3::Version(a, b),
        Ok(Err(_)) => Outcome3::OtherErr,
    }
}

/// the three entry points under one spec
fn run_all(sp: usize, bytes: &[u8]) -> [Outcome3; 3] {
    with_spec!(sp, |e, _order| {
        fn go<E: EndianParse + 'static>(_e: E, bytes: &[u8]) -> [Outcome3; 3] {
            let a = classify(subject(|| ElfBytes::<E>::minimal_parse(bytes).map(|_| ())));
            let b = classify(subject(|| ElfStream::<E, _>::open_stream(Cursor::new(bytes.to_vec())).map(|_| ())));
            // a reader handed over at another position (the caller sniffed the magic) must be judged alike
            let b2 = classify(subject(|| {
                let mut c = Cursor::new(bytes.to_vec());
                c.set_position(if bytes.len() > 20 { 17 } else { bytes.len() as u64 });
                ElfStream::<E, _>::open_stream(c).map(|_| ())
            }));
            let b = if b2 == b { b } else { Outcome3::Panic(format!("open_stream judges the file differently when the reader does not start at 0: {:?} at 0, {:?} at 17", b, b2)) };
            let c = if bytes.len() >= 16 { classify(subject(|| elf::file::parse_ident::<E>(&bytes[..16]).map(|_| ()))) } else { Outcome3::OtherErr };
            [a, b, c]
        }
        go(e, bytes)
    })
}
const ENTRY: [&str; 3] = ["ElfBytes::minimal_parse", "ElfStream::open_stream", "file::parse_ident"];

/// does spec `sp` accept EI_DATA byte `d`?
fn spec_accepts(sp: usize, d: u8) -> bool {
    match sp {
        0 | 4 => d == 1, // LittleEndian, NativeEndian (little-endian host)
        1 => d == 2,
        _ => d == 1 || d == 2,
    }
}

struct IdentSweep {
    bases: Vec<Skeleton>,
    pairs: bool,
}
// defect kinds: 0 EI_DATA x256, 1 EI_CLASS x256, 2 EI_VERSION x256, 3 magic single byte 4x256, 4 magic subsets 15x3
const PER_BASE: u64 = 256 * 3 + 1024 + 45;
impl IdentSweep {
    fn decode(&self, idx: u64) -> (usize, u64, u64) {
        let per = if self.pairs { 65536 } else { PER_BASE };
        ((idx / per) as usize, idx % per, per)
    }
    fn mutate(&self, base: &Skeleton, k: u64) -> (Vec<u8>, String) {
        let mut b = base.bytes.clone();
        if self.pairs {
            b[4] = (k >> 8) as u8;
            b[5] = (k & 0xff) as u8;
            return (b, format!("EI_CLASS={:#x} EI_DATA={:#x}", k >> 8, k & 0xff));
        }
        if k < 256 {
            b[5] = k as u8;
            (b, format!("EI_DATA={:#x}", k))
        } else if k < 512 {
            b[4] = (k - 256) as u8;
            (b, format!("EI_CLASS={:#x}", k - 256))
        } else if k < 768 {
            b[6] = (k - 512) as u8;
            (b, format!("EI_VERSION={:#x}", k - 512))
        } else if k < 768 + 1024 {
            let j = k - 768;
            b[(j / 256) as usize] = (j % 256) as u8;
            (b, format!("EI_MAG{}={:#x}", j / 256, j % 256))
        } else {
            let j = k - 768 - 1024;
            let subset = j / 3 + 1;
            let val = j % 3;
            for pos in 0..4 {
                if subset >> pos & 1 == 1 {
                    b[pos] = match val {
                        0 => 0x00,
                        1 => 0xff,
                        _ => base.bytes[(pos + 1) % 4],
                    };
                }
            }
            (b, format!("magic positions {:04b} := {}", subset, ["00", "ff", "neighbouring byte"][val as usize]))
        }
    }
}
impl Space for IdentSweep {
    fn name(&self) -> String {
        if self.pairs {
            format!("all 65536 (EI_CLASS, EI_DATA) pairs x 5 specs x 3 entry points on {} base files", self.bases.len())
        } else {
            format!("all 256 values of EI_DATA, EI_CLASS, EI_VERSION; all single-byte magic values (4x256); 15 magic position subsets x {{00,ff,neighbour}}; x 5 specs x {{minimal_parse, open_stream, parse_ident}} on {} base files", self.bases.len())
        }
    }
    fn size(&self) -> u64 {
        self.bases.len() as u64 * if self.pairs { 65536 } else { PER_BASE }
    }
    fn describe(&self, idx: u64) -> Value {
        let (bi, k, _) = self.decode(idx);
        let (_, d) = self.mutate(&self.bases[bi], k);
        json!({"base": self.bases[bi].name, "ident": d})
    }
    fn run(&self, idx: u64, out: &mut Outcome) {
        let (bi, k, _) = self.decode(idx);
        let base = &self.bases[bi];
        let (bytes, desc) = self.mutate(base, k);
        let magic_ok = bytes[..4] == [0x7f, b'E', b'L', b'F'];
        let class_ok = bytes[4] == 1 || bytes[4] == 2;
        let version_ok = bytes[6] == 1;
        let (d, c, v) = (bytes[5], bytes[4], bytes[6]);
        let mut dig = Fnv::new();
        for sp in 0..NSPEC {
            let data_ok = spec_accepts(sp, d);
            let defects = (!magic_ok) as u32 + (!class_ok) as u32 + (!version_ok) as u32 + (!data_ok) as u32;
            let res = run_all(sp, &bytes);
            out.transitions += 3;
            for (ei, r) in res.iter().enumerate() {
                dig.u64(match r {
                    Outcome3::Ok => 1,
                    Outcome3::BadMagic(_) => 2,
                    Outcome3::Class(_) => 3,
                    Outcome3::Endian(_) => 4,
                    Outcome3::Version(..) => 5,
                    Outcome3::OtherErr => 6,
                    Outcome3::Panic(_) => 7,
                });
                let who = format!("{}::<{}>", ENTRY[ei], SPEC_NAMES[sp]);
                if let Outcome3::Panic(m) = r {
                    if m.starts_with("open_stream judges") {
                        out.violate(format!("reader-position-changes-the-verdict:{}", ENTRY[ei]), format!("{desc}: {m}"));
                    } else {
                        out.violate(format!("panic:{} in {}", ENTRY[ei], panic_site(m)), format!("{desc}: {m}"));
                    }
                    continue;
                }
                // the gate itself, independent of everything else: a byte outside the spec's set never
                // gets the file opened, a byte inside never produces an endianness error
                if !data_ok && *r == Outcome3::Ok {
                    out.violate(format!("spec-accepts-foreign-order:{}", who), format!("{desc}: opened although EI_DATA={:#x} is not in the spec's set", d));
                }
                if data_ok && matches!(r, Outcome3::Endian(_)) {
                    out.violate(format!("spec-rejects-own-order:{}", who), format!("{desc}: {:?}", r));
                }
                if defects == 0 {
                    // only the ident is constrained here: parse_ident must accept; the file parsers
                    // may still fail for other reasons (EI_CLASS flipped to the other valid class)
                    if ei == 2 && *r != Outcome3::Ok {
                        out.violate(format!("valid-ident-rejected:{}", who), format!("{desc}: {:?}", r));
                    }
                    if matches!(r, Outcome3::BadMagic(_) | Outcome3::Class(_) | Outcome3::Version(..)) {
                        out.violate(format!("valid-ident-rejected:{}", who), format!("{desc}: {:?}", r));
                    }
                } else if defects == 1 {
                    let want = if !magic_ok {
                        Outcome3::BadMagic([bytes[0], bytes[1], bytes[2], bytes[3]])
                    } else if !class_ok {
                        Outcome3::Class(c)
                    } else if !version_ok {
                        Outcome3::Version(v as u64, 1)
                    } else {
                        Outcome3::Endian(d)
                    };
                    if *r != want {
                        out.violate(
                            format!(
                                "single-ident-defect-misreported:{} want {}",
                                who,
                                match want {
                                    Outcome3::BadMagic(_) => "BadMagic",
                                    Outcome3::Class(_) => "UnsupportedElfClass",
                                    Outcome3::Version(..) => "UnsupportedVersion",
                                    _ => "UnsupportedElfEndianness",
                                }
                            ),
                            format!("{desc}: expected {:?}, got {:?}", want, r),
                        );
                    }
                } else if *r == Outcome3::Ok {
                    out.violate(format!("defective-ident-accepted:{}", who), format!("{desc}: {} ident defects but the file opened", defects));
                }
            }
        }
        out.nontrivial(dig.get() ^ k);
        out.count(if magic_ok && class_ok && version_ok { "ident_valid_except_maybe_data" } else { "ident_defective" });
    }
}

/// The byte order a spec reports about itself: `is_little` / `is_big` are complementary and agree
/// with the EI_DATA byte the spec was made from (all 256 bytes, 4 spec types).
struct SpecFlags;
impl Space for SpecFlags {
    fn name(&self) -> String {
        "from_ei_data over all 256 EI_DATA bytes x {AnyEndian, LittleEndian, BigEndian, NativeEndian}: accepted exactly for the spec's set; the spec it yields reports is_little() == (byte == ELFDATA2LSB) and is_big() == !is_little()".into()
    }
    fn size(&self) -> u64 {
        1
    }
    fn describe(&self, _idx: u64) -> Value {
        json!({"ei_data": "0..=255"})
    }
    fn run(&self, _idx: u64, out: &mut Outcome) {
        fn go<E: EndianParse + core::fmt::Debug>(who: &str, accepts: &[u8], out: &mut Outcome) {
            for d in 0..=255u8 {
                out.transitions += 1;
                match subject(|| E::from_ei_data(d).ok().map(|e| (e.is_little(), e.is_big()))) {
                    Err(m) => out.violate(format!("panic:{who}::from_ei_data"), m),
                    Ok(None) => {
                        if accepts.contains(&d) {
                            out.violate(format!("spec-rejects-own-order:{who}::from_ei_data"), format!("EI_DATA {d}"));
                        }
                    }
                    Ok(Some((l, b))) => {
                        if !accepts.contains(&d) {
                            out.violate(format!("spec-accepts-foreign-order:{who}::from_ei_data"), format!("EI_DATA {d}"));
                        } else if l != (d == 1) || b == l {
                            out.violate(format!("byte-order-flags:{who}"), format!("made from EI_DATA {d}: is_little() = {l}, is_big() = {b}"));
                        }
                    }
                }
            }
        }
        go::<AnyEndian>("AnyEndian", &[1, 2], out);
        go::<LittleEndian>("LittleEndian", &[1], out);
        go::<BigEndian>("BigEndian", &[2], out);
        go::<elf::endian::NativeEndian>("NativeEndian", &[1], out);
        out.nontrivial(0x5bec);
    }
}

/// Every ElfStream query under one spec, as (label, digest of the Debug text of the answer).
fn stream_observe<E: EndianParse + 'static>(bytes: &[u8]) -> Vec<(String, u64)> {
    let mut v: Vec<(String, u64)> = Vec::new();
    let dig = |s: String| {
        let mut f = Fnv::new();
        f.bytes(s.as_bytes());
        f.get()
    };
    let mut f = match ElfStream::<E, _>::open_stream(Cursor::new(bytes.to_vec())) {
        Ok(f) => f,
        Err(e) => {
            v.push(("open".into(), dig(format!("Err({e:?})"))));
            return v;
        }
    };
    v.push(("ehdr (without the endianness field)".into(), dig(format!("{:?}", (f.ehdr.class, f.ehdr.e_type, f.ehdr.e_machine, f.ehdr.e_entry, f.ehdr.e_phoff, f.ehdr.e_shoff, f.ehdr.e_flags, f.ehdr.e_phnum, f.ehdr.e_shnum, f.ehdr.e_shstrndx)))));
    let shdrs = f.section_headers().clone();
    let phdrs = f.segments().clone();
    v.push(("section_headers".into(), dig(format!("{shdrs:?}"))));
    v.push(("segments".into(), dig(format!("{phdrs:?}"))));
    for (i, h) in shdrs.iter().enumerate().take(64) {
        v.push((format!("section_data({i})"), dig(format!("{:?}", f.section_data(h)))));
        v.push((format!("section_data_as_strtab({i})"), dig(format!("{:?}", f.section_data_as_strtab(h).map(|st| (0..8).map(|o| st.get_raw(o).ok().map(|b| b.to_vec())).collect::<Vec<_>>())))));
        v.push((format!("section_data_as_rels({i})"), dig(format!("{:?}", f.section_data_as_rels(h).map(|it| it.take(64).collect::<Vec<_>>())))));
        v.push((format!("section_data_as_relas({i})"), dig(format!("{:?}", f.section_data_as_relas(h).map(|it| it.take(64).collect::<Vec<_>>())))));
        v.push((format!("section_data_as_notes({i})"), dig(format!("{:?}", f.section_data_as_notes(h).map(|it| it.take(64).collect::<Vec<_>>())))));
    }
    for (j, p) in phdrs.iter().enumerate().take(32) {
        v.push((format!("segment_data_as_notes({j})"), dig(format!("{:?}", f.segment_data_as_notes(p).map(|it| it.take(64).collect::<Vec<_>>())))));
    }
    v.push(("section_headers_with_strtab".into(), dig(format!("{:?}", f.section_headers_with_strtab().map(|(sh, st)| (sh.clone(), st.map(|st| (0..24).map(|o| st.get_raw(o).ok().map(|b| b.to_vec())).collect::<Vec<_>>())))))));
    for n in [".dynsym", ".gnu.hash", ".absent"] {
        v.push((format!("section_header_by_name({n})"), dig(format!("{:?}", f.section_header_by_name(n)))));
    }
    v.push(("symbol_table".into(), dig(format!("{:?}", f.symbol_table().map(|o| o.map(|(t, st)| (t.iter().take(64).collect::<Vec<_>>(), (0..16).map(|o| st.get_raw(o).ok().map(|b| b.to_vec())).collect::<Vec<_>>())))))));
    v.push(("dynamic_symbol_table".into(), dig(format!("{:?}", f.dynamic_symbol_table().map(|o| o.map(|(t, st)| (t.iter().take(64).collect::<Vec<_>>(), (0..16).map(|o| st.get_raw(o).ok().map(|b| b.to_vec())).collect::<Vec<_>>())))))));
    v.push(("dynamic".into(), dig(format!("{:?}", f.dynamic().map(|o| o.map(|t| t.iter().take(64).collect::<Vec<_>>()))))));
    v.push((
        "symbol_version_table".into(),
        dig(format!(
            "{:?}",
            f.symbol_version_table().map(|o| o.map(|t| (0..8usize)
                .map(|i| (
                    t.get_requirement(i).map(|r| r.map(|r| (r.file.to_string(), r.name.to_string(), r.hash, r.flags, r.hidden))).ok(),
                    t.get_definition(i).map(|d| d.map(|d| (d.hash, d.flags, d.hidden, d.names.map(|n| n.map(|s| s.to_string()).ok()).collect::<Vec<_>>()))).ok()
                ))
                .collect::<Vec<_>>()))
        )),
    ));
    v
}

/// AnyEndian == the matching fixed spec, through the stream parser (compressed sections included:
/// the compression header is decoded by the stream on its own path).
struct StreamAnyVsFixed {
    sks: Vec<Skeleton>,
}
impl Space for StreamAnyVsFixed {
    fn name(&self) -> String {
        format!("every ElfStream query (all sections and segments, every typed view, symbol tables, dynamic, versions, names) under AnyEndian and under the fixed spec matching EI_DATA on {} generated objects (tiny-full in both layouts, small and extended-numbering shapes, wide objects)", self.sks.len())
    }
    fn size(&self) -> u64 {
        self.sks.len() as u64
    }
    fn describe(&self, idx: u64) -> Value {
        json!({"file": self.sks[idx as usize].name})
    }
    fn run(&self, idx: u64, out: &mut Outcome) {
        let sk = &self.sks[idx as usize];
        let little = sk.bytes.get(5) == Some(&1);
        let r = subject(|| {
            let a = stream_observe::<AnyEndian>(&sk.bytes);
            let f = if little { stream_observe::<LittleEndian>(&sk.bytes) } else { stream_observe::<BigEndian>(&sk.bytes) };
            (a, f)
        });
        match r {
            Err(m) => out.violate(format!("panic:ElfStream in {}", panic_site(&m)), m),
            Ok((a, f)) => {
                out.transitions += (a.len() + f.len()) as u64;
                if a.len() != f.len() {
                    out.violate("any-vs-fixed:ElfStream answers a different set of queries", format!("{}: {} vs {}", sk.name, a.len(), f.len()));
                }
                for (x, y) in a.iter().zip(f.iter()) {
                    if x != y {
                        out.violate(format!("any-vs-fixed:ElfStream::{}", x.0.split('(').next().unwrap_or("?")), format!("{}: {} answers differently under AnyEndian and under the fixed spec", sk.name, x.0));
                        break;
                    }
                }
                let mut d = Fnv::new();
                for x in &a {
                    d.u64(x.1);
                }
                out.nontrivial(d.get());
            }
        }
    }
}

pub fn build(tier: Tier) -> CheckDef {
    // header-only files (52 / 64 bytes) first: an ident defect must be named even when nothing follows the header
    let mut bases: Vec<Skeleton> = small_shapes().into_iter().filter(|s| s.name.starts_with("header-only")).collect();
    bases.extend(small_shapes().into_iter().filter(|s| s.name.starts_with("shdrs-only")));
    bases.extend(tiny_skeletons().into_iter().filter(|s| s.name.ends_with("linker-order")));
    let mut spaces: Vec<Box<dyn Space>> = vec![Box::new(IdentSweep { bases: bases.clone(), pairs: false })];
    if tier == Tier::Thorough {
        spaces.push(Box::new(IdentSweep { bases: bases.into_iter().take(4).collect(), pairs: true }));
    }
    let (l, b) = lattice_spaces(tier, AnyVsFixed, "C10 AnyEndian == fixed spec");
    spaces.extend(l);
    let mut sks = tiny_skeletons();
    sks.extend(small_shapes());
    sks.extend(extnum_shapes());
    sks.extend(wide_shapes());
    spaces.push(Box::new(StreamAnyVsFixed { sks }));
    spaces.push(Box::new(SpecFlags));
    // the run-time spec against the compile-time ones at the level of single integer reads (value,
    // cursor, and behaviour on failure)
    spaces.push(Box::new(super::c04::ShortBuffers { maxlen: 2 }));
    spaces.push(Box::new(super::c04::ByteWalks));
    spaces.push(Box::new(super::c04::FarOffsets));
    spaces.push(Box::new(super::c04::ParseAtInts));
    CheckDef {
        prop: "C10",
        level: "model_checking",
        rule: "complete enumeration of the ident byte domains (all 256 EI_DATA / EI_CLASS / EI_VERSION values, every single-byte magic value, all magic position subsets) x 5 specs x 3 entry points with the exact error variant and payload demanded for single defects; and, over the whole engine-L lattice, record-by-record equality of the AnyEndian run with the run of the fixed spec matching the file's EI_DATA byte. non-trivial = variant that opens (distinct observation digest)".into(),
        assumptions: vec![
            "little-endian host (NativeEndian == LittleEndian)".into(),
            "multi-defect idents only have to be rejected; which error they get is not constrained".into(),
        ],
        spaces,
        abort_is_violation: false,
        hang_is_violation: false,
        exhaustive: true,
        bounds: json!({"lattice": b.text, "class_data_pairs": tier == Tier::Thorough}),
    }
}
