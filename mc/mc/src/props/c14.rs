//! C14 — note iteration yields exactly the notes laid out in the section/segment.
use super::common::*;
use super::slice_oracles::panic_site;
use crate::alloc::subject;
use crate::framework::*;
use crate::util::*;
use elf::note::{Note, NoteIterator};
use elf::ElfBytes;
use refmodel::image::*;
use refmodel::layout::*;
use refmodel::notes::*;
use serde_json::{json, Value};

const ALIGNS: [usize; 8] = [1, 2, 4, 8, 16, 3, 5, 12];
const TYPES1: [u32; 7] = [0, 1, 2, 3, 4, 5, 7];

fn name_bytes(family: u64, len: usize) -> Vec<u8> {
    let pat: &[u8] = match family {
        0 => b"GNU\0\0\0\0\0\0\0\0\0\0\0\0\0\0\0\0\0\0\0\0\0\0\0\0\0\0\0\0\0\0",
        1 => b"XY\0Zabcdefghijklmnopqrstuvwxyz012",
        _ => b"\xff\xfeQ\0\xc3\x28mnopqrstuvwxyz0123456789ABC",
    };
    pat[..len].to_vec()
}
fn desc_bytes(len: usize, salt: u8) -> Vec<u8> {
    (0..len).map(|i| (i as u8).wrapping_mul(7).wrapping_add(salt) | 0x01).collect()
}

/// What the crate yields, reduced to comparable data (kind tag, type, name range, desc range, abi words, name_str)
#[derive(Debug, PartialEq, Eq, Clone)]
struct Got {
    kind: u8,
    n_type: u64,
    name: Option<(usize, usize)>,
    desc: Option<(usize, usize)>,
    abi: Option<[u32; 4]>,
    name_str: Option<Option<Vec<u8>>>,
}

fn off_in(base: &[u8], s: &[u8]) -> (usize, usize) {
    let a = (s.as_ptr() as usize).wrapping_sub(base.as_ptr() as usize);
    (a, a.wrapping_add(s.len()))
}

fn to_got(n: Note<'_>, base: &[u8]) -> Got {
    match n {
        Note::GnuAbiTag(t) => Got { kind: 1, n_type: 1, name: None, desc: None, abi: Some([t.os, t.major, t.minor, t.subminor]), name_str: None },
        Note::GnuBuildId(b) => Got { kind: 2, n_type: 3, name: None, desc: Some(off_in(base, b.0)), abi: None, name_str: None },
        Note::Unknown(a) => Got {
            kind: 3,
            n_type: a.n_type,
            name: Some(off_in(base, a.name)),
            desc: Some(off_in(base, a.desc)),
            abi: None,
            name_str: Some(a.name_str().ok().map(|s| s.as_bytes().to_vec())),
        },
    }
}

fn collect<E: EndianParse>(it: NoteIterator<'_, E>, base: &[u8], cap: usize) -> Vec<Got> {
    let mut v = Vec::new();
    for n in it {
        if v.len() > cap {
            break;
        }
        v.push(to_got(n, base));
    }
    v
}

/// Iterator-adaptor histories on a fresh iterator: j x next(), then nth(k) / last() / count().
/// Returns, per (j, k), the item nth(k) produced, plus last() and count() after j steps.
#[allow(clippy::type_complexity)]
fn adaptor_histories<'a, E: EndianParse + std::fmt::Debug>(mk: &dyn Fn() -> NoteIterator<'a, E>, base: &[u8], n: usize) -> Vec<(usize, Vec<Option<Got>>, Option<Got>, usize, Option<Got>)> {
    let mut v = Vec::new();
    for j in 0..=n {
        let mut nths = Vec::new();
        for k in 0..3usize {
            let mut it = mk();
            for _ in 0..j {
                it.next();
            }
            let a = it.nth(k).map(|x| to_got(x, base));
            nths.push(a);
            if k == 1 {
                // the item after an nth(1)
                let b = it.next().map(|x| to_got(x, base));
                nths.push(b);
            }
        }
        let mut it = mk();
        for _ in 0..j {
            it.next();
        }
        let last = it.last().map(|x| to_got(x, base));
        let mut it = mk();
        for _ in 0..j {
            it.next();
        }
        let count = it.take(base.len() + 2).count();
        let mut it = mk();
        let skipped = it.by_ref().skip(j).next().map(|x| to_got(x, base));
        // Debug of an iterator in any state (also exhausted, with its cursor beyond the data) is total
        {
            let mut it = mk();
            for _ in 0..j + 2 {
                it.next();
            }
            let _ = crate::alloc::outside(|| 0);
            let text = format!("{:?}", it);
            std::hint::black_box(text.len());
        }
        v.push((j, nths, last, count, skipped));
    }
    v
}

fn check_adaptors(what: &str, want: &[Got], hist: Vec<(usize, Vec<Option<Got>>, Option<Got>, usize, Option<Got>)>, out: &mut Outcome) {
    let at = |i: usize| want.get(i).cloned();
    let eq = |a: &Option<Got>, b: &Option<Got>| match (a, b) {
        (None, None) => true,
        (Some(a), Some(b)) => same(std::slice::from_ref(a), std::slice::from_ref(b)),
        _ => false,
    };
    for (j, nths, last, count, skipped) in hist {
        out.transitions += 6;
        // nths = [nth(0), nth(1), next-after-nth(1), nth(2)]
        let wants = [at(j), at(j + 1), if j + 1 < want.len() { at(j + 2) } else { None }, at(j + 2)];
        for (q, (g, w)) in nths.iter().zip(wants.iter()).enumerate() {
            // once the iterator has answered None it is not required to be fused: the step after an
            // exhausted nth(1) is unconstrained
            if q == 2 && j + 1 >= want.len() {
                continue;
            }
            if !eq(g, w) {
                out.violate(format!("adaptor:{what}::nth"), format!("after {j} x next(), step {q} of [nth(0), nth(1), next after nth(1), nth(2)] gives {:?}, the notes in order say {:?}", g, w));
                return;
            }
        }
        let wl = if j < want.len() { want.last().cloned() } else { None };
        if !eq(&last, &wl) {
            out.violate(format!("adaptor:{what}::last"), format!("after {j} x next(), last() gives {:?}, expected {:?}", last, wl));
            return;
        }
        if count != want.len().saturating_sub(j) {
            out.violate(format!("adaptor:{what}::count"), format!("after {j} x next(), count() = {count}, expected {}", want.len().saturating_sub(j)));
            return;
        }
        if !eq(&skipped, &at(j)) {
            out.violate(format!("adaptor:{what}::skip"), format!("skip({j}).next() gives {:?}, expected {:?}", skipped, at(j)));
            return;
        }
    }
}

fn expect(data: &[u8], order: Order, align: usize) -> Vec<Got> {
    walk_notes(order, align, data)
        .into_iter()
        .map(|r| match r.kind {
            RefNoteKind::AbiTag { os, major, minor, subminor } => Got { kind: 1, n_type: 1, name: None, desc: None, abi: Some([os, major, minor, subminor]), name_str: None },
            RefNoteKind::BuildId => Got { kind: 2, n_type: 3, name: None, desc: Some(r.desc), abi: None, name_str: None },
            RefNoteKind::Unknown => {
                let nb = &data[r.name.0..r.name.1];
                let ns = std::str::from_utf8(nb).ok().map(|s| s.trim_end_matches('\0').as_bytes().to_vec());
                Got { kind: 3, n_type: r.n_type as u64, name: Some(r.name), desc: Some(r.desc), abi: None, name_str: Some(ns) }
            }
        })
        .collect()
}

/// empty slices have no meaningful address: compare them by emptiness only
fn same(a: &[Got], b: &[Got]) -> bool {
    if a.len() != b.len() {
        return false;
    }
    for (x, y) in a.iter().zip(b.iter()) {
        let rng = |p: Option<(usize, usize)>, q: Option<(usize, usize)>| match (p, q) {
            (Some(p), Some(q)) => (p.1 - p.0 == 0 && q.1.wrapping_sub(q.0) == 0) || p == q,
            (None, None) => true,
            _ => false,
        };
        if x.kind != y.kind || x.n_type != y.n_type || !rng(x.name, y.name) || !rng(x.desc, y.desc) || x.abi != y.abi || x.name_str != y.name_str {
            return false;
        }
    }
    true
}

fn compare(what: &str, data: &[u8], order: Order, align: usize, got: Result<Vec<Got>, String>, out: &mut Outcome, dig: &mut Fnv) -> usize {
    out.transitions += 1;
    let want = expect(data, order, align);
    match got {
        Err(m) => {
            out.violate(format!("panic:{} in {}", what, panic_site(&m)), m);
            0
        }
        Ok(g) => {
            if !same(&want, &g) {
                out.violate(
                    format!("notes-differ:{what}"),
                    format!("align {} order {:?} data {}: reference walk {:?} but the iterator yields {:?}", align, order, hex(data), want, g),
                );
            }
            for x in &g {
                dig.u64(x.kind as u64 ^ (x.n_type << 8));
                if let Some(d) = x.desc {
                    // an empty slice has no meaningful address (it may be a static): digest only its emptiness
                    dig.u64(if d.1.wrapping_sub(d.0) == 0 { u64::MAX } else { d.0 as u64 });
                }
            }
            g.len()
        }
    }
}

struct Sequences {
    three: bool,
    /// namesz/descsz of the first note range over 0..=min(2*align, maxsz)
    maxsz: usize,
}
impl Sequences {
    fn dims(&self) -> [u64; 4] {
        // align, enc, namesz1, descsz1
        [8, 4, self.maxsz as u64 + 1, self.maxsz as u64 + 1]
    }
}
impl Space for Sequences {
    fn name(&self) -> String {
        format!(
            "NoteIterator::new over sequences of {} notes: align in {{1,2,4,8,16,3,5,12}} x 4 encodings x note1 (namesz, descsz in 0..=min(2*align,{}), type in {{0,1,2,3,4,5,7}}, name family in {{GNU, XY, non-UTF-8}}) x note2 (namesz {{0,3,4,5}}, descsz {{0,1,16,align+1}}, type {{0,1,3}}){} x tail in {{none, 5 garbage bytes, 0xA5 in every padding byte, every truncation 1..=12 of the end}}; on the untruncated variants also nth(0..2) / next-after-nth / last / count / skip from every cursor position; align 0",
            if self.three { "2-3" } else { "1-2" },
            self.maxsz,
            if self.three { " x note3 (GNU build-id / ABI tag)" } else { "" }
        )
    }
    fn size(&self) -> u64 {
        product(&self.dims())
    }
    fn describe(&self, idx: u64) -> Value {
        let d = unmix(idx, &self.dims());
        json!({"align": ALIGNS[d[0] as usize], "encoding": ENCS[d[1] as usize].name(), "note1": {"namesz": d[2], "descsz": d[3]}, "inner_loop": "types x name families x second note x tails"})
    }
    fn run(&self, idx: u64, out: &mut Outcome) {
        let d = unmix(idx, &self.dims());
        let align = ALIGNS[d[0] as usize];
        let enc = ENCS[d[1] as usize];
        let (ns1, ds1) = (d[2] as usize, d[3] as usize);
        if ns1 > (2 * align).min(self.maxsz) || ds1 > (2 * align).min(self.maxsz) {
            out.count("beyond_2*align_not_needed");
            return;
        }
        let e = if enc.order == Order::Lsb { AnyEndian::Little } else { AnyEndian::Big };
        let class = class_of(enc);
        let mut dig = Fnv::new();
        let mut yielded = 0usize;
        for t1 in TYPES1 {
            for fam in 0..3u64 {
                let n1 = NoteSpec { n_type: t1, name: name_bytes(fam, ns1), desc: desc_bytes(ds1, 0x10) };
                let mut seconds: Vec<Option<NoteSpec>> = vec![None];
                for ns2 in [0usize, 3, 4, 5] {
                    for ds2 in [0usize, 1, 16, align + 1] {
                        for t2 in [0u32, 1, 3] {
                            seconds.push(Some(NoteSpec { n_type: t2, name: name_bytes(0, ns2), desc: desc_bytes(ds2, 0x40) }));
                        }
                    }
                }
                for n2 in seconds {
                    let mut notes = vec![n1.clone()];
                    if let Some(n2) = n2 {
                        notes.push(n2);
                    }
                    if self.three {
                        notes.push(NoteSpec { n_type: 3, name: b"GNU\0".to_vec(), desc: desc_bytes(20, 0x70) });
                    }
                    let body = build_notes(enc.order, align, &notes, 0);
                    let mut variants: Vec<Vec<u8>> = vec![body.clone()];
                    let mut g = body.clone();
                    g.extend_from_slice(&[0xff, 0x00, 0x01, 0xfe, 0x7f]);
                    variants.push(g);
                    // padding is skipped, never interpreted: the same records with 0xA5 in every padding byte
                    let padded = build_notes(enc.order, align, &notes, 0xA5);
                    if padded != body {
                        variants.push(padded);
                    }
                    for cut in 1..=12usize {
                        if cut <= body.len() {
                            variants.push(body[..body.len() - cut].to_vec());
                        }
                    }
                    for (vi, data) in variants.iter().enumerate() {
                        let cap = data.len() + 2;
                        let got = subject(|| collect(NoteIterator::new(e, class, align, data), data, cap));
                        yielded += compare("NoteIterator", data, enc.order, align, got, out, &mut dig);
                        // Debug of the exhausted iterator (its cursor may lie beyond a cut-off tail) is total
                        if let Err(m) = subject(|| {
                            let mut it = NoteIterator::new(e, class, align, data);
                            let mut k = 0;
                            while it.next().is_some() && k < cap {
                                k += 1;
                            }
                            it.next();
                            format!("{:?}", it).len()
                        }) {
                            out.violate(format!("panic:Debug for NoteIterator in {}", panic_site(&m)), format!("align {align} data {}: {m}", hex(data)));
                        }
                        if vi < 2 || (vi == 2 && data.len() == variants[0].len()) {
                            // nth / skip / last / count from every cursor position must walk the same records
                            let want = expect(data, enc.order, align);
                            match subject(|| adaptor_histories(&|| NoteIterator::new(e, class, align, data), data, want.len())) {
                                Err(m) => out.violate(format!("panic:NoteIterator adaptors in {}", panic_site(&m)), m),
                                Ok(h) => check_adaptors("NoteIterator", &want, h, out),
                            }
                        }
                    }
                }
            }
        }
        // zero alignment yields nothing
        let body = build_notes(enc.order, 4, &[NoteSpec { n_type: 3, name: b"GNU\0".to_vec(), desc: vec![1, 2, 3, 4] }], 0);
        let got = subject(|| collect(NoteIterator::new(e, class, 0, &body), &body, 10));
        compare("NoteIterator(align=0)", &body, enc.order, 0, got, out, &mut dig);
        if yielded > 0 {
            out.nontrivial(dig.get() ^ idx);
            out.count_n("notes_yielded", yielded as u64);
        }
    }
}

/// Long sequences: 20 notes whose sizes cycle through all residues; every truncation of the section.
struct Long;
impl Space for Long {
    fn name(&self) -> String {
        "sequences of 20 notes (namesz/descsz cycling through 0..=40, typed and untyped) x 8 alignments x 4 encodings x every truncation of the section by 0..=64 bytes".into()
    }
    fn size(&self) -> u64 {
        8 * 4
    }
    fn describe(&self, idx: u64) -> Value {
        json!({"align": ALIGNS[(idx % 8) as usize], "encoding": ENCS[(idx / 8) as usize].name(), "notes": 20})
    }
    fn run(&self, idx: u64, out: &mut Outcome) {
        let align = ALIGNS[(idx % 8) as usize];
        let enc = ENCS[(idx / 8) as usize];
        let e = if enc.order == Order::Lsb { AnyEndian::Little } else { AnyEndian::Big };
        let class = class_of(enc);
        let mut notes = Vec::new();
        for i in 0..20usize {
            let ns = (i * 7) % 33;
            let ds = (i * 11 + 3) % 41;
            let (name, ty) = match i % 4 {
                0 => (b"GNU\0".to_vec(), 3u32),
                1 => (name_bytes(1, ns), 7),
                2 => (b"GNU\0".to_vec(), 1),
                _ => (name_bytes(2, ns), 0x42),
            };
            let desc = if i % 4 == 2 { desc_bytes(16 + (i % 3), 5) } else { desc_bytes(ds, i as u8) };
            notes.push(NoteSpec { n_type: ty, name, desc });
        }
        let body = build_notes(enc.order, align, &notes, 0);
        let mut dig = Fnv::new();
        let mut y = 0;
        {
            // one large note: a 300-byte name and a 70 000-byte descriptor, followed by a build-id
            let big = vec![
                NoteSpec { n_type: 9, name: (0..300).map(|i| b'A' + (i % 26) as u8).collect(), desc: (0..70_000usize).map(|i| (i % 251) as u8).collect() },
                NoteSpec { n_type: 3, name: b"GNU\0".to_vec(), desc: desc_bytes(20, 1) },
            ];
            let data = build_notes(enc.order, align, &big, 0);
            let got = subject(|| collect(NoteIterator::new(e, class, align, &data), &data, data.len() + 2));
            y += compare("NoteIterator(70000-byte descriptor)", &data, enc.order, align, got, out, &mut dig);
        }
        for cut in 0..=64usize.min(body.len()) {
            let data = &body[..body.len() - cut];
            let got = subject(|| collect(NoteIterator::new(e, class, align, data), data, data.len() + 2));
            y += compare("NoteIterator(20 notes)", data, enc.order, align, got, out, &mut dig);
        }
        if y > 0 {
            out.nontrivial(dig.get() ^ idx);
        }
    }
}

/// The same through ElfBytes: a SHT_NOTE section (sh_addralign) and a PT_NOTE segment (p_align).
pub struct ThroughFile;
impl ThroughFile {
    fn dims() -> [u64; 5] {
        // align (incl. 0), enc, namesz, descsz, (name family, type) of the first note
        [9, 4, 9, 9, 8]
    }
}
impl Space for ThroughFile {
    fn name(&self) -> String {
        "ElfBytes and ElfStream: section_data_as_notes (sh_addralign) and segment_data_as_notes (p_align, p_memsz != p_filesz) on generated files: align in {0,1,2,4,8,16,3,5,12} x 4 encodings x note1 (namesz, descsz in 0..=8; name family {XY.., GNU + NULs} x type {7, 1, 3, 5}) followed by an ABI-tag note and a 5-byte build-id whose trailing padding lies outside the section".into()
    }
    fn size(&self) -> u64 {
        product(&Self::dims())
    }
    fn describe(&self, idx: u64) -> Value {
        let d = unmix(idx, &Self::dims());
        let ty = [7, 1, 3, 5][(d[4] % 4) as usize];
        json!({"align": if d[0] == 0 { 0 } else { ALIGNS[d[0] as usize - 1] }, "encoding": ENCS[d[1] as usize].name(), "namesz": d[2], "descsz": d[3], "name_family": if d[4] / 4 == 0 { "XY.." } else { "GNU + NULs" }, "type": ty})
    }
    fn run(&self, idx: u64, out: &mut Outcome) {
        let d = unmix(idx, &Self::dims());
        let align = if d[0] == 0 { 0 } else { ALIGNS[d[0] as usize - 1] };
        let enc = ENCS[d[1] as usize];
        let notes = vec![
            NoteSpec { n_type: [7, 1, 3, 5][(d[4] % 4) as usize], name: name_bytes(if d[4] / 4 == 0 { 1 } else { 0 }, d[2] as usize), desc: desc_bytes(d[3] as usize, 3) },
            NoteSpec { n_type: 1, name: b"GNU\0".to_vec(), desc: desc_bytes(16, 1) },
            NoteSpec { n_type: 3, name: b"GNU\0".to_vec(), desc: desc_bytes(5, 9) },
        ];
        let mut body = build_notes(enc.order, align.max(1), &notes, 0);
        // two cases out of three: the section ends with the last descriptor, the padding that would
        // follow it is not part of the section
        {
            let a = align.max(1);
            let up = |x: usize| (x + a - 1) / a * a;
            let last_len = up(12 + 4) + 5;
            let full_last = up(last_len);
            if align > 0 && body.len() >= full_last && idx % 3 != 0 {
                body.truncate(body.len() - (full_last - last_len));
            }
        }
        let mut spec = Spec::new(enc, TableOrder::TablesFirst);
        // the header names a different platform from case to case (file type x machine x OS ABI):
        // note parsing has no platform-specific exception
        spec.e_type = [3u16, 4, 1, 2][((d[2] + d[3]) % 4) as usize];
        spec.e_machine = crate::skeleton::QUIRK_MACHINES[((d[2] * 3 + d[3]) % 14) as usize].0;
        spec.osabi = [0u8, 3, 13, 9, 6, 97, 255][((d[2] + 2 * d[3]) % 7) as usize];
        spec.secs = vec![Sec::new(b".note.x", SHT_NOTE, body.clone()).addralign(align as u64)];
        // p_memsz differs from p_filesz (below it for even cases, as in core files; above it otherwise)
        spec.segs = vec![Seg { p_type: PT_NOTE, flags: 4, vaddr: 0, paddr: 0, align: align as u64, memsz_extra: if idx % 2 == 0 { 0u64.wrapping_sub(5) } else { 9 }, target: SegTarget::Section(1) }];
        let b = refmodel::image::build(&spec);
        let (off, size) = b.sec_range(1);
        let data = &b.bytes[off as usize..(off + size) as usize];
        let mut dig = Fnv::new();
        let r = subject(|| {
            let f = ElfBytes::<AnyEndian>::minimal_parse(&b.bytes).ok()?;
            let sh = f.section_headers()?.get(1).ok()?;
            let ph = f.segments()?.get(0).ok()?;
            let a = f.section_data_as_notes(&sh).ok().map(|it| collect(it, data, data.len() + 2));
            let c = f.segment_data_as_notes(&ph).ok().map(|it| collect(it, data, data.len() + 2));
            Some((a, c))
        });
        // the same two views through the stream parser (its buffers are copies: contents are compared)
        let rs = subject(|| {
            let mut f = elf::ElfStream::<AnyEndian, _>::open_stream(std::io::Cursor::new(b.bytes.clone())).ok()?;
            let sh = *f.section_headers().get(1)?;
            let ph = *f.segments().first()?;
            let a = f.section_data_as_notes(&sh).ok().map(|it| it.take(data.len() + 2).map(|n| format!("{n:?}")).collect::<Vec<_>>());
            let c = f.segment_data_as_notes(&ph).ok().map(|it| it.take(data.len() + 2).map(|n| format!("{n:?}")).collect::<Vec<_>>());
            Some((a, c))
        });
        let want_dbg: Vec<String> = NoteIterator::new(if enc.order == Order::Lsb { AnyEndian::Little } else { AnyEndian::Big }, class_of(enc), align, data).take(data.len() + 2).map(|n| format!("{n:?}")).collect();
        match rs {
            Err(m) => out.violate(format!("panic:ElfStream::*_as_notes in {}", panic_site(&m)), m),
            Ok(None) => out.violate("notes-differ:ElfStream does not open the file", format!("align {align} {}", enc.name())),
            Ok(Some((a, c))) => {
                // NoteIterator on the raw bytes is judged above / in the other spaces; here: the stream's
                // views walk exactly those bytes
                for (who, got) in [("ElfStream::section_data_as_notes", a), ("ElfStream::segment_data_as_notes", c)] {
                    out.transitions += 1;
                    if got.as_ref() != Some(&want_dbg) {
                        out.violate(format!("notes-differ:{who}"), format!("align {align} {}: the stream view yields {:?}, the section's bytes hold {:?}", enc.name(), got, want_dbg));
                    }
                }
            }
        }
        match r {
            Err(m) => out.violate(format!("panic:ElfBytes::*_as_notes in {}", panic_site(&m)), m),
            Ok(None) | Ok(Some((None, _))) | Ok(Some((_, None))) => out.violate("notes-differ:file does not yield a note iterator", format!("align {align} {}", enc.name())),
            Ok(Some((Some(a), Some(c)))) => {
                let n = compare("ElfBytes::section_data_as_notes", data, enc.order, align, Ok(a), out, &mut dig);
                compare("ElfBytes::segment_data_as_notes", data, enc.order, align, Ok(c), out, &mut dig);
                if n > 0 {
                    out.nontrivial(dig.get() ^ idx);
                }
            }
        }
    }
}

pub fn build(tier: Tier) -> CheckDef {
    CheckDef {
        prop: "C14",
        level: "model_checking",
        rule: "small-scope exhaustive enumeration of note sequences (every residue of namesz/descsz modulo the alignment, power-of-two and other alignments, typed and untyped notes, garbage tails and every truncation) built by the reference builder; the real NoteIterator's output (variant, type, name/descriptor byte ranges by pointer, ABI-tag words, name_str) must equal the reference walk. non-trivial = sequence that yields at least one note".into(),
        assumptions: vec!["note headers are three 32-bit words for both classes (as the property states)".into()],
        spaces: vec![Box::new(Sequences { three: tier == Tier::Thorough, maxsz: tier.pick(20, 32) }), Box::new(Long), Box::new(ThroughFile),
            // the note views of the tiny-full objects do not depend on which platform the header names
            Box::new(super::c02::Platforms { sk: crate::skeleton::tiny_skeletons().into_iter().filter(|s| s.name.ends_with("linker-order")).collect() })],
        abort_is_violation: false,
        hang_is_violation: true,
        exhaustive: true,
        bounds: json!({"notes_per_sequence": tier.pick("1-2", "2-3"), "sizes": tier.pick("0..=min(2*align,20)", "0..=min(2*align,32)")}),
    }
}
