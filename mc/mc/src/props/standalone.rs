//! Small-scope enumeration of the stand-alone public entry points that no file reaches
//! (DESIGN.md C01 (2)): parse_ident, parse_tail, every ParseAt type, tables, string tables,
//! note iterators, hash tables over all short word strings, version iterators.
use super::common::*;
use super::slice_oracles::panic_site;
use crate::alloc::{self, subject};
use crate::driver::{index_alphabet, ALIGNS};
use crate::framework::*;
use crate::util::*;
use elf::gnu_symver::*;
use elf::hash::{GnuHashTable, SysVHashTable};
use elf::note::NoteIterator;
use elf::parse::{ParseAt, ParsingTable};
use elf::string_table::StringTable;
use elf::symbol::SymbolTable;
use refmodel::layout::{put, Class as RClass, Kind, ENCS};
use serde_json::{json, Value};

/// What the stand-alone spaces check on top of "no panic".
#[derive(Clone, Copy, PartialEq, Eq)]
pub enum Also {
    Nothing,
    ZeroAlloc,
    Bounded,
}

fn after(what: &str, r: Result<u64, String>, also: Also, bound: u64, out: &mut Outcome, dig: &mut Fnv) {
    let st = alloc::stats();
    out.transitions += 1;
    match r {
        Err(m) => out.violate(format!("panic:{} in {}", what, panic_site(&m)), m),
        Ok(items) => {
            dig.u64(items);
            if also == Also::ZeroAlloc && st.calls > 0 {
                out.violate(format!("alloc:{what}"), format!("{} allocation call(s)", st.calls));
            }
            if also == Also::Bounded && items > bound {
                out.violate(format!("runaway:{what}"), format!("{items} items from an input that allows at most {bound}"));
            }
        }
    }
    out.alloc_calls += st.calls;
    alloc::reset_stats();
}

// ------------------------------------------------------------------ parse_ident / parse_tail
pub struct IdentSpace {
    pub also: Also,
}
const IDENT_BYTES: [u8; 8] = [0, 1, 2, 3, 0x7f, 0x45, 0xfe, 0xff];
impl Space for IdentSpace {
    fn name(&self) -> String {
        "file::parse_ident::<E> on every buffer length 0..=17 x (valid ident, each of the 9 meaningful bytes x 8 values) x 4 specs; FileHeader::parse_tail on every length 0..=49 x 2 classes".into()
    }
    fn size(&self) -> u64 {
        18 * (1 + 9 * 8) + 50 * 2
    }
    fn describe(&self, idx: u64) -> Value {
        if idx < 18 * 73 {
            let len = idx / 73;
            let v = idx % 73;
            json!({"fn": "parse_ident", "buffer_len": len, "variant": v})
        } else {
            let k = idx - 18 * 73;
            json!({"fn": "FileHeader::parse_tail", "buffer_len": k / 2, "class": if k % 2 == 0 {"ELF32"} else {"ELF64"}})
        }
    }
    fn run(&self, idx: u64, out: &mut Outcome) {
        let mut dig = Fnv::new();
        alloc::reset_stats();
        if idx < 18 * 73 {
            let len = (idx / 73) as usize;
            let v = idx % 73;
            let mut ident = [0x7f, b'E', b'L', b'F', 2, 1, 1, 0, 0, 0, 0, 0, 0, 0, 0, 0, 0xaa];
            if v > 0 {
                let pos = ((v - 1) / 8) as usize;
                ident[pos] = IDENT_BYTES[((v - 1) % 8) as usize];
            }
            let buf = &ident[..len];
            for sp in 0..NSPEC {
                let r = with_spec!(sp, |e, _order| {
                    let _ = e;
                    fn go<E: EndianParse>(_e: E, buf: &[u8]) -> u64 {
                        match elf::file::parse_ident::<E>(buf) {
                            Ok((_, c, a, b)) => 1 + (c == Class::ELF64) as u64 + ((a as u64) << 8) + ((b as u64) << 16),
                            Err(_) => 0,
                        }
                    }
                    subject(|| go(e, buf))
                });
                let what = if len < 16 { "file::parse_ident(len<16)" } else { "file::parse_ident" };
                after(what, r, self.also, u64::MAX, out, &mut dig);
            }
        } else {
            let k = idx - 18 * 73;
            let len = (k / 2) as usize;
            let class = if k % 2 == 0 { Class::ELF32 } else { Class::ELF64 };
            let buf: Vec<u8> = (0..len).map(|i| (i as u8).wrapping_mul(7) ^ 0x80).collect();
            let r = subject(|| match elf::file::FileHeader::parse_tail((AnyEndian::Big, class, 3, 4), &buf) {
                Ok(h) => h.e_shoff ^ h.e_phoff ^ h.e_shnum as u64,
                Err(_) => 0,
            });
            after("FileHeader::parse_tail", r, self.also, u64::MAX, out, &mut dig);
        }
        out.nontrivial(dig.get() ^ idx);
    }
}

// ------------------------------------------------------------------ every ParseAt type
fn parse_at_kind<P: ParseAt>(class: Class, off: usize, buf: &[u8]) -> u64 {
    let mut o = off;
    match P::parse_at(AnyEndian::Little, class, &mut o, buf) {
        Ok(_) => 1 + o as u64,
        Err(_) => 0,
    }
}
fn table_ops<P: ParseAt>(class: Class, buf: &[u8], idx: &[usize]) -> u64 {
    let t = ParsingTable::<AnyEndian, P>::new(AnyEndian::Big, class, buf);
    let mut n = t.len() as u64 + t.is_empty() as u64;
    for i in idx {
        n += t.get(*i).is_ok() as u64;
    }
    let mut c = 0u64;
    for _ in t.iter() {
        c += 1;
        if c > buf.len() as u64 + 2 {
            break;
        }
    }
    for _ in t {
        c += 1;
        if c > 2 * buf.len() as u64 + 4 {
            break;
        }
    }
    n + (c << 20)
}
macro_rules! per_type {
    ($t:expr, $f:ident, $($args:expr),*) => {
        match $t {
            0 => $f::<elf::section::SectionHeader>($($args),*),
            1 => $f::<elf::segment::ProgramHeader>($($args),*),
            2 => $f::<elf::symbol::Symbol>($($args),*),
            3 => $f::<elf::relocation::Rel>($($args),*),
            4 => $f::<elf::relocation::Rela>($($args),*),
            5 => $f::<elf::dynamic::Dyn>($($args),*),
            6 => $f::<elf::compression::CompressionHeader>($($args),*),
            7 => $f::<elf::note::NoteGnuAbiTag>($($args),*),
            8 => $f::<elf::hash::SysVHashHeader>($($args),*),
            9 => $f::<elf::hash::GnuHashHeader>($($args),*),
            10 => $f::<VersionIndex>($($args),*),
            11 => $f::<VerDef>($($args),*),
            12 => $f::<VerDefAux>($($args),*),
            13 => $f::<VerNeed>($($args),*),
            14 => $f::<VerNeedAux>($($args),*),
            15 => $f::<u32>($($args),*),
            _ => $f::<u64>($($args),*),
        }
    };
}
pub const NTYPES: u64 = 17;
pub const TYPE_NAMES: [&str; 17] = [
    "SectionHeader", "ProgramHeader", "Symbol", "Rel", "Rela", "Dyn", "CompressionHeader", "NoteGnuAbiTag",
    "SysVHashHeader", "GnuHashHeader", "VersionIndex", "VerDef", "VerDefAux", "VerNeed", "VerNeedAux", "u32", "u64",
];
fn size_of_type(t: u64, class: Class) -> usize {
    fn sz<P: ParseAt>(class: Class) -> usize {
        P::size_for(class)
    }
    per_type!(t, sz, class)
}

pub struct ParseAtSpace {
    pub also: Also,
}
impl Space for ParseAtSpace {
    fn name(&self) -> String {
        "P::parse_at, ParsingTable<P>::{len,is_empty,get,iter,into_iter} for the 17 public ParseAt types x 2 classes x every buffer length 0..=2*size+1 x offsets/indexes I(len)".into()
    }
    fn size(&self) -> u64 {
        NTYPES * 2 * 130
    }
    fn describe(&self, idx: u64) -> Value {
        let d = unmix(idx, &[130, 2, NTYPES]);
        json!({"type": TYPE_NAMES[d[2] as usize], "class": if d[1] == 0 {"ELF32"} else {"ELF64"}, "buffer_len": d[0]})
    }
    fn run(&self, idx: u64, out: &mut Outcome) {
        let d = unmix(idx, &[130, 2, NTYPES]);
        let class = if d[1] == 0 { Class::ELF32 } else { Class::ELF64 };
        let t = d[2];
        let size = size_of_type(t, class);
        let len = d[0] as usize;
        if len > 2 * size + 1 {
            out.count("beyond_2size+1_not_needed");
            return;
        }
        // VerDef/VerNeed need version == 1 to get past the first field: both byte patterns
        let mut dig = Fnv::new();
        alloc::reset_stats();
        for pat in 0..2u8 {
            let buf: Vec<u8> = (0..len).map(|i| if pat == 0 { ((i % 2) == 0) as u8 } else { (i as u8).wrapping_mul(13) ^ 0xc3 }).collect();
            let what = format!("{}::parse_at", TYPE_NAMES[t as usize]);
            for off in (0..=len + 1).chain(index_alphabet(len, size).into_iter()) {
                let r = subject(|| per_type!(t, parse_at_kind, class, off, &buf));
                after(&what, r, self.also, u64::MAX, out, &mut dig);
            }
            let ia = index_alphabet(len / size.max(1), size);
            let r = subject(|| per_type!(t, table_ops, class, &buf, &ia));
            let bound = (1 + 2 + ia.len() as u64) + ((2 * len as u64 + 4) << 20);
            after(&format!("ParsingTable<{}>", TYPE_NAMES[t as usize]), r, if self.also == Also::Bounded { Also::Nothing } else { self.also }, bound, out, &mut dig);
        }
        out.nontrivial(dig.get());
    }
}

// ------------------------------------------------------------------ string tables + note iterators
pub struct StrNoteSpace {
    pub also: Also,
}
impl Space for StrNoteSpace {
    fn name(&self) -> String {
        "StringTable::{get,get_raw} on tables of length 0..=5 over {00,'a',ff} x offsets I(len); NoteIterator::new over 14 alignments x 2 classes x note buffers (namesz,descsz in {0,1,3,4,5,8,0xffffffff} x buffer lengths 0..=32)".into()
    }
    fn size(&self) -> u64 {
        364 + 14 * 2 * 49 * 5
    }
    fn describe(&self, idx: u64) -> Value {
        if idx < 364 {
            json!({"kind": "string table", "table_index": idx})
        } else {
            let d = unmix(idx - 364, &[14, 2, 49, 5]);
            json!({"kind": "notes", "align": ALIGNS[d[0] as usize], "class64": d[1], "sizes": d[2], "buffer_len_class": d[3]})
        }
    }
    fn run(&self, idx: u64, out: &mut Outcome) {
        let mut dig = Fnv::new();
        alloc::reset_stats();
        if idx < 364 {
            // all strings of length <= 5 over 3 symbols: 1+3+9+27+81+243 = 364
            let mut k = idx;
            let mut len = 0;
            loop {
                let n = 3u64.pow(len);
                if k < n {
                    break;
                }
                k -= n;
                len += 1;
            }
            let tab: Vec<u8> = (0..len).map(|i| [0u8, b'a', 0xff][((k / 3u64.pow(i)) % 3) as usize]).collect();
            let st = StringTable::new(&tab);
            for off in (0..=tab.len() + 2).chain(index_alphabet(tab.len(), 1).into_iter()) {
                let r = subject(|| st.get_raw(off).map(|b| b.len() as u64 + 1).unwrap_or(0) + st.get(off).map(|b| b.len() as u64 + 1).unwrap_or(0));
                after("StringTable::get", r, self.also, u64::MAX, out, &mut dig);
            }
        } else {
            let d = unmix(idx - 364, &[14, 2, 49, 5]);
            let align = ALIGNS[d[0] as usize] as usize;
            let class = if d[1] == 0 { Class::ELF32 } else { Class::ELF64 };
            const SZ: [u64; 7] = [0, 1, 3, 4, 5, 8, 0xffff_ffff];
            let namesz = SZ[(d[2] / 7) as usize];
            let descsz = SZ[(d[2] % 7) as usize];
            // 0, 11, 12, 20, 32 bytes, or (class 4) exactly the unpadded end of the first note's descriptor
            let exact = {
                let a = align.max(1);
                let ne = 12usize.saturating_add(namesz.min(64) as usize);
                let ds = if a < 64 && ne % a != 0 { ne + (a - ne % a) } else { ne };
                ds.saturating_add(descsz.min(64) as usize).min(96)
            };
            let blen = [0usize, 11, 12, 20, exact][d[3] as usize];
            let mut buf = vec![0u8; blen];
            for order in [Order::Lsb, Order::Msb] {
                if blen >= 12 {
                    put(&mut buf, 0, 4, order, namesz);
                    put(&mut buf, 4, 4, order, descsz);
                    put(&mut buf, 8, 4, order, 1);
                    for (i, b) in b"GNU\0".iter().enumerate() {
                        if 12 + i < blen {
                            buf[12 + i] = *b;
                        }
                    }
                }
                let r = subject(|| {
                    let e = if order == Order::Lsb { AnyEndian::Little } else { AnyEndian::Big };
                    let mut n = 0u64;
                    for _ in NoteIterator::new(e, class, align, &buf) {
                        n += 1;
                        if n > blen as u64 + 2 {
                            break;
                        }
                    }
                    n
                });
                after("NoteIterator::next", r, self.also, blen as u64, out, &mut dig);
            }
        }
        out.nontrivial(dig.get() ^ idx);
    }
}

// ------------------------------------------------------------------ hash tables over all short word strings
fn small_symtab(enc: Enc) -> (Vec<u8>, Vec<u8>) {
    let names: Vec<Vec<u8>> = vec![b"".to_vec(), b"a".to_vec(), b"bc".to_vec(), b"a".to_vec()];
    let (strs, offs) = refmodel::hashes::build_strtab(&names);
    (refmodel::hashes::build_symtab(enc, &offs), strs)
}
/// looked-up names: present, absent, and two whose running SysV / GNU hash reaches all-ones / zero
pub const HASH_NAMES: [&[u8]; 6] = [b"", b"a", b"bc", b"zz", b"iiiiia\x8fx", b"glidpkx"];

pub struct WordStrings {
    pub gnu: bool,
    pub maxwords: u32,
    pub also: Also,
}
const SYSV_ALPHA: [u32; 5] = [0, 1, 2, 3, u32::MAX];
const GNU_ALPHA: [u32; 6] = [0, 1, 2, 31, 32, u32::MAX];
impl WordStrings {
    fn alpha(&self) -> &'static [u32] {
        if self.gnu {
            &GNU_ALPHA
        } else {
            &SYSV_ALPHA
        }
    }
    /// one case = one word string prefix of length <= maxwords-2 with all 2-word completions
    fn words(&self, mut idx: u64) -> Vec<u32> {
        let a = self.alpha();
        let base = a.len() as u64;
        let mut len = 0u32;
        loop {
            let n = base.pow(len);
            if idx < n {
                break;
            }
            idx -= n;
            len += 1;
        }
        (0..len).map(|i| a[((idx / base.pow(i)) % base) as usize]).collect()
    }
}
impl Space for WordStrings {
    fn name(&self) -> String {
        format!(
            "{}::{{new,find}} on ALL word strings of <= {} words over {:?}, both classes, both byte orders, names {{\"\",a,bc,zz}} against a 4-symbol table",
            if self.gnu { "GnuHashTable" } else { "SysVHashTable" },
            self.maxwords,
            self.alpha()
        )
    }
    fn size(&self) -> u64 {
        let base = self.alpha().len() as u64;
        (0..=self.maxwords.saturating_sub(2)).map(|l| base.pow(l)).sum()
    }
    fn describe(&self, idx: u64) -> Value {
        json!({"word_prefix": self.words(idx), "completions": "every 0, 1 and 2 further words of the alphabet"})
    }
    fn run(&self, idx: u64, out: &mut Outcome) {
        let prefix = self.words(idx);
        let a = self.alpha();
        let mut dig = Fnv::new();
        alloc::reset_stats();
        // completions: the prefix itself counts only when it is a complete string of its own length,
        // i.e. each string is visited exactly once as (prefix of length L-2) + 2 words, plus the
        // strings shorter than 2 words at idx 0.
        let mut tails: Vec<Vec<u32>> = Vec::new();
        if prefix.is_empty() {
            tails.push(vec![]);
            for x in a {
                tails.push(vec![*x]);
            }
        }
        for x in a {
            for y in a {
                tails.push(vec![*x, *y]);
            }
        }
        let what_new = if self.gnu { "GnuHashTable::new" } else { "SysVHashTable::new" };
        let what_find = if self.gnu { "GnuHashTable::find" } else { "SysVHashTable::find" };
        let mut tables = 0u64;
        let symtabs: Vec<(Vec<u8>, Vec<u8>)> = ENCS.iter().map(|e| small_symtab(*e)).collect();
        for tail in &tails {
            let mut words = prefix.clone();
            words.extend_from_slice(tail);
            for (ei, enc) in ENCS.into_iter().enumerate() {
                let mut buf = vec![0u8; words.len() * 4];
                for (i, w) in words.iter().enumerate() {
                    put(&mut buf, 4 * i, 4, enc.order, *w as u64);
                }
                let class = class_of(enc);
                let e = if enc.order == Order::Lsb { AnyEndian::Little } else { AnyEndian::Big };
                let (symb, strb) = (&symtabs[ei].0, &symtabs[ei].1);
                let symtab = SymbolTable::new(e, class, symb);
                let strtab = StringTable::new(strb);
                tables += 1;
                if self.gnu {
                    let t = match subject(|| GnuHashTable::new(e, class, &buf).ok()) {
                        Err(m) => {
                            out.violate(format!("panic:{} in {}", what_new, panic_site(&m)), m);
                            continue;
                        }
                        Ok(None) => continue,
                        Ok(Some(t)) => t,
                    };
                    for n in HASH_NAMES {
                        let r = subject(|| match t.find(n, &symtab, &strtab) {
                            Ok(Some((i, _))) => 2 + i as u64,
                            Ok(None) => 1,
                            Err(_) => 0,
                        });
                        after(what_find, r, self.also, u64::MAX, out, &mut dig);
                    }
                } else {
                    let t = match subject(|| SysVHashTable::new(e, class, &buf).ok()) {
                        Err(m) => {
                            out.violate(format!("panic:{} in {}", what_new, panic_site(&m)), m);
                            continue;
                        }
                        Ok(None) => continue,
                        Ok(Some(t)) => t,
                    };
                    for n in HASH_NAMES {
                        let r = subject(|| match t.find(n, &symtab, &strtab) {
                            Ok(Some((i, _))) => 2 + i as u64,
                            Ok(None) => 1,
                            Err(_) => 0,
                        });
                        after(what_find, r, self.also, u64::MAX, out, &mut dig);
                    }
                }
            }
        }
        out.count_n("tables", tables);
        out.nontrivial(dig.get() ^ idx);
    }
}

// ------------------------------------------------------------------ version iterators
pub struct VerIterSpace {
    pub also: Also,
}
const VF: [u64; 8] = [0, 1, 2, 8, 16, 20, 0xffff, 0xffff_ffff];
const COUNTS: [u64; 7] = [0, 1, 2, 3, 0xffff, 0xffff_ffff, u64::MAX];
impl Space for VerIterSpace {
    fn name(&self) -> String {
        "VerDef/VerNeed(+Aux) iterators and SymbolVersionTable::new over all 2-record sections whose cnt/aux/next fields range over {0,1,2,8,16,20,0xffff,2^32-1} x declared counts {0,1,2,3,0xffff,2^32-1,u64::MAX} x starting offsets I(len) x 2 byte orders".into()
    }
    fn size(&self) -> u64 {
        // (cnt,aux,next) of record 0 x (cnt, next) of record 1 x kind(def/need)
        8 * 8 * 8 * 8 * 8 * 2
    }
    fn describe(&self, idx: u64) -> Value {
        let d = unmix(idx, &[8, 8, 8, 8, 8, 2]);
        json!({"kind": if d[5] == 0 {"verdef"} else {"verneed"}, "rec0": {"cnt": VF[d[0] as usize], "aux": VF[d[1] as usize], "next": VF[d[2] as usize]}, "rec1": {"cnt": VF[d[3] as usize], "next": VF[d[4] as usize]}})
    }
    fn run(&self, idx: u64, out: &mut Outcome) {
        let d = unmix(idx, &[8, 8, 8, 8, 8, 2]);
        let def = d[5] == 0;
        let mut dig = Fnv::new();
        alloc::reset_stats();
        for enc in [ENCS[0], ENCS[3]] {
            let e = if enc.order == Order::Lsb { AnyEndian::Little } else { AnyEndian::Big };
            let class = class_of(enc);
            let (hs, asz) = if def { (20usize, 8usize) } else { (16, 16) };
            // layout: rec0, aux, aux, rec1, aux  (plus 3 spare bytes)
            let total = hs + 2 * asz + hs + asz + 3;
            let mut b = vec![0u8; total];
            let recs = [(0usize, VF[d[0] as usize], VF[d[1] as usize], VF[d[2] as usize]), (hs + 2 * asz, VF[d[3] as usize], hs as u64, VF[d[4] as usize])];
            for (off, cnt, aux, next) in recs {
                let vals: Vec<u64> = if def { vec![1, 0, 2, cnt, 0x1234, aux, next] } else { vec![1, cnt, 1, aux, next] };
                let k = if def { Kind::Verdef } else { Kind::Verneed };
                b[off..off + hs].copy_from_slice(&refmodel::layout::encode(k, enc, &vals, 0));
            }
            for (i, aoff) in [hs, hs + asz, 2 * hs + 2 * asz].iter().enumerate() {
                let vals: Vec<u64> = if def { vec![1, VF[(d[2] as usize + i) % 8]] } else { vec![7, 0, 2 + i as u64, 1, VF[(d[2] as usize + i) % 8]] };
                let k = if def { Kind::Verdaux } else { Kind::Vernaux };
                b[*aoff..*aoff + asz].copy_from_slice(&refmodel::layout::encode(k, enc, &vals, 0));
            }
            let strs = b"\0ab\0cd\0".to_vec();
            let versym = [2u8, 0, 3, 0, 0x02, 0x80, 1, 0];
            for count in COUNTS {
                for start in [0usize, 1, hs, total - 1, total, total + 1].into_iter().chain(index_alphabet(total, 1).into_iter().skip(6)) {
                    let cap = total as u64 + 2;
                    let r = subject(|| {
                        let mut items = 0u64;
                        let mut worst = 0u64;
                        let mut over = 0u64;
                        if def {
                            let hint = VerDefIterator::new(e, class, count, start, &b).size_hint();
                            for (vd, auxes) in VerDefIterator::new(e, class, count, start, &b) {
                                items += 1;
                                let mut n = 0u64;
                                let ah = auxes.size_hint();
                                let mut aux_done = true;
                                for _ in auxes {
                                    n += 1;
                                    if n > cap {
                                        aux_done = false;
                                        break;
                                    }
                                }
                                if aux_done {
                                    crate::driver::hint_ok(ah, n as usize, "VerDefAuxIterator");
                                }
                                if n > vd.vd_cnt as u64 {
                                    over = 1;
                                }
                                worst = worst.max(n);
                                if items > cap {
                                    break;
                                }
                            }
                            if items <= cap {
                                crate::driver::hint_ok(hint, items as usize, "VerDefIterator");
                            }
                        } else {
                            let hint = VerNeedIterator::new(e, class, count, start, &b).size_hint();
                            for (vn, auxes) in VerNeedIterator::new(e, class, count, start, &b) {
                                items += 1;
                                let mut n = 0u64;
                                let ah = auxes.size_hint();
                                let mut aux_done = true;
                                for _ in auxes {
                                    n += 1;
                                    if n > cap {
                                        aux_done = false;
                                        break;
                                    }
                                }
                                if aux_done {
                                    crate::driver::hint_ok(ah, n as usize, "VerNeedAuxIterator");
                                }
                                if n > vn.vn_cnt as u64 {
                                    over = 1;
                                }
                                worst = worst.max(n);
                                if items > cap {
                                    break;
                                }
                            }
                            if items <= cap {
                                crate::driver::hint_ok(hint, items as usize, "VerNeedIterator");
                            }
                        }
                        items.max(worst) | (((items > count) as u64) | over) << 40
                    });
                    let r2 = match r {
                        Ok(v) if v >> 40 != 0 && self.also == Also::Bounded => {
                            out.violate(
                                format!("count-exceeded:{}", if def { "VerDefIterator" } else { "VerNeedIterator" }),
                                format!("yielded more records than the declared count {count}, or more aux entries than a record's declared cnt"),
                            );
                            Ok(v & 0xffff_ffff)
                        }
                        Ok(v) => Ok(v & 0xffff_ffff),
                        Err(m) => Err(m),
                    };
                    after(if def { "VerDefIterator::next" } else { "VerNeedIterator::next" }, r2, self.also, total as u64, out, &mut dig);
                }
                // through SymbolVersionTable::new
                let cap = total as u64 + 2;
                let r = subject(|| {
                    let ids = VersionIndexTable::new(e, class, &versym);
                    let st = StringTable::new(&strs);
                    let t = if def {
                        SymbolVersionTable::new(ids, None, Some((VerDefIterator::new(e, class, count, 0, &b), st)))
                    } else {
                        SymbolVersionTable::new(ids, Some((VerNeedIterator::new(e, class, count, 0, &b), st)), None)
                    };
                    let mut n = 0u64;
                    for i in [0usize, 1, 2, 3, 4, 5, usize::MAX / 2, usize::MAX / 2 + 1, usize::MAX] {
                        if let Ok(Some(_)) = t.get_requirement(i) {
                            n += 1;
                        }
                        if let Ok(Some(dd)) = t.get_definition(i) {
                            let mut c = 0u64;
                            for _ in dd.names {
                                c += 1;
                                if c > cap {
                                    break;
                                }
                            }
                            n = n.max(c);
                        }
                    }
                    n
                });
                after("SymbolVersionTable::get_*", r, self.also, total as u64, out, &mut dig);
            }
        }
        out.nontrivial(dig.get());
    }
}

pub fn all_spaces(tier: Tier, also: Also) -> Vec<Box<dyn Space>> {
    let _ = RClass::C32;
    vec![
        Box::new(IdentSpace { also }),
        Box::new(ParseAtSpace { also }),
        Box::new(StrNoteSpace { also }),
        Box::new(WordStrings { gnu: false, maxwords: tier.pick(8, 10), also }),
        Box::new(WordStrings { gnu: true, maxwords: tier.pick(8, 10), also }),
        Box::new(VerIterSpace { also }),
    ]
}
