//! C01 — slice parser is total.
use super::lattice_cfg::lattice_spaces;
use super::slice_oracles::*;
use super::standalone::{all_spaces, Also};
use crate::framework::*;
use crate::lattice::Prefixes;
use crate::skeleton::*;
use serde_json::json;

#[derive(Clone)]
pub struct O(pub Mode);
impl crate::lattice::Oracle for O {
    fn check(&self, sk: &Skeleton, bytes: &[u8], out: &mut Outcome) {
        slice_check(self.0, sk.enc.order, bytes, out)
    }
}
pub struct PrefixTotal(pub Mode);
impl crate::lattice::PrefixOracle for PrefixTotal {
    fn check(&self, sk: &Skeleton, _whole: &[u8], cut: &[u8], out: &mut Outcome) {
        slice_check(self.0, sk.enc.order, cut, out)
    }
}

pub fn spaces_for(tier: Tier, mode: Mode, also: Also, label: &'static str) -> (Vec<Box<dyn Space>>, String) {
    let (mut v, b) = lattice_spaces(tier, O(mode), label);
    // truncations of the tiny skeletons (quick: two of them) and of the small samples (thorough)
    let tiny = tiny_skeletons();
    let pick: Vec<usize> = if tier == Tier::Quick { vec![0, 7] } else { (0..8).collect() };
    for k in pick {
        v.push(Box::new(Prefixes { sk: tiny[k].clone(), oracle: PrefixTotal(mode), label }));
    }
    if tier == Tier::Thorough {
        for sk in sample_skeletons() {
            if sk.bytes.len() <= 16 * 1024 {
                v.push(Box::new(Prefixes { sk, oracle: PrefixTotal(mode), label }));
            }
        }
    }
    v.extend(all_spaces(tier, also));
    (v, b.text)
}

pub fn build(tier: Tier) -> CheckDef {
    let (mut spaces, bounds) = spaces_for(tier, Mode::Total, Also::Nothing, "C01 no panic");
    // iterator histories incl. nth(huge) from every cursor position (any caller-supplied count)
    spaces.push(Box::new(super::c09::Sequences { depth: 3 }));
    CheckDef {
        prop: "C01",
        level: "model_checking",
        rule: "deviation-bounded enumeration (engine L) of whole-file variants + all prefixes + complete small-scope enumeration (engine G) of stand-alone entry points; on each input the whole public slice API is executed with overflow checks and debug assertions on, each worker process-isolated. states = distinct inputs executed; transitions = crate API calls; non-trivial = input that opens (distinct observation digest)".into(),
        assumptions: vec![
            "64-bit usize only; values outside the boundary alphabets and more than 2 simultaneous deviations are not explored".into(),
            "the reference image builder produces well-formed skeletons (cross-checked by the k=0 cases of C02/C05/C13)".into(),
        ],
        spaces,
        abort_is_violation: true,
        hang_is_violation: true,
        exhaustive: true,
        bounds: json!({"lattice": bounds, "hash_word_strings_max_words": tier.pick(8, 10), "surface_audit": super::surface_audit()}),
    }
}
