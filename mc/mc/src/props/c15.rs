//! C15 — string-table lookup returns exactly the NUL-terminated string at the offset.
use super::slice_oracles::panic_site;
use crate::alloc::subject;
use crate::framework::*;
use crate::util::*;
use elf::string_table::StringTable;
use serde_json::{json, Value};

const ALPHA: [u8; 4] = [0x00, b'a', 0xC3, 0xA9];

/// reference definition
fn ref_get_raw(tab: &[u8], off: usize) -> Option<&[u8]> {
    if off >= tab.len() {
        return None;
    }
    let mut end = off;
    while end < tab.len() && tab[end] != 0 {
        end += 1;
    }
    if end == tab.len() {
        return None; // no NUL follows the run inside the table
    }
    Some(&tab[off..end])
}

fn check_one(tab: &[u8], off: usize, out: &mut Outcome, dig: &mut Fnv) -> bool {
    let st = StringTable::new(tab);
    out.transitions += 2;
    let want = ref_get_raw(tab, off);
    let got = subject(|| (st.get_raw(off).ok(), st.get(off).ok()));
    let (raw, s) = match got {
        Err(m) => {
            out.violate(format!("panic:StringTable::get in {}", panic_site(&m)), format!("table {} off {}: {}", hex(tab), off, m));
            return false;
        }
        Ok(x) => x,
    };
    if raw != want {
        out.violate(
            "get_raw:wrong result",
            format!("table {} offset {}: get_raw = {:?}, reference = {:?}", hex(tab), off, raw.map(hex), want.map(hex)),
        );
    }
    if let (Some(r), Some(w)) = (raw, want) {
        // the returned slice borrows from the table at exactly that offset
        if !w.is_empty() && r.as_ptr() != tab[off..].as_ptr() {
            out.violate("get_raw:not a sub-slice at the offset", format!("table {} offset {}", hex(tab), off));
        }
    }
    let want_str = want.and_then(|w| std::str::from_utf8(w).ok());
    if s != want_str {
        out.violate(
            "get:wrong result",
            format!("table {} offset {}: get = {:?}, reference = {:?}", hex(tab), off, s, want_str),
        );
    }
    if let Some(w) = want {
        dig.bytes(w);
    }
    want.is_some()
}

struct Small {
    maxlen: u32,
}
impl Small {
    fn table(mut idx: u64) -> Vec<u8> {
        let mut len = 0u32;
        loop {
            let n = 4u64.pow(len);
            if idx < n {
                break;
            }
            idx -= n;
            len += 1;
        }
        (0..len).map(|i| ALPHA[((idx / 4u64.pow(i)) % 4) as usize]).collect()
    }
}
impl Space for Small {
    fn name(&self) -> String {
        format!("every table of length 0..={} over {{00,'a',C3,A9}} ({} tables) x every offset 0..=len+2, 2^32+o and 2^40+o for o in 0..=len, and {{usize::MAX, usize::MAX/2}}", self.maxlen, self.size())
    }
    fn size(&self) -> u64 {
        (0..=self.maxlen).map(|l| 4u64.pow(l)).sum()
    }
    fn describe(&self, idx: u64) -> Value {
        json!({"table_hex": hex(&Small::table(idx)), "offsets": "0..=len+2, usize::MAX/2, usize::MAX"})
    }
    fn run(&self, idx: u64, out: &mut Outcome) {
        let t = Small::table(idx);
        let mut dig = Fnv::new();
        let mut some = 0;
        let far: Vec<usize> = (0..=t.len()).flat_map(|o| [(1usize << 32) + o, (1usize << 40) + o]).collect();
        for off in (0..=t.len() + 2).chain([usize::MAX / 2, usize::MAX]).chain(far) {
            if check_one(&t, off, out, &mut dig) {
                some += 1;
            }
        }
        if some > 0 {
            dig.u64(idx);
            out.nontrivial(dig.get());
            out.count("table_with_a_string");
        } else {
            out.count("table_without_any_string");
        }
    }
}

/// 4 KiB tables with the single NUL at every position (thorough) / every 64th position (quick)
struct Large {
    step: usize,
}
impl Space for Large {
    fn name(&self) -> String {
        format!("4 KiB tables of non-NUL bytes with a single NUL at position p (every {}th p) x offsets {{0,1,p-1,p,p+1,4094,4095,4096,4097}}; same with multi-byte UTF-8 straddling the offset", self.step)
    }
    fn size(&self) -> u64 {
        (4096 / self.step) as u64 + 1
    }
    fn describe(&self, idx: u64) -> Value {
        json!({"nul_position": (idx as usize * self.step).min(4095)})
    }
    fn run(&self, idx: u64, out: &mut Outcome) {
        let p = (idx as usize * self.step).min(4095);
        let mut dig = Fnv::new();
        if idx == 0 {
            // one 70 KiB table: strings around the 2^16 boundary
            let mut t: Vec<u8> = (0..70_000usize).map(|i| b'a' + (i % 23) as u8).collect();
            for p in [255usize, 256, 65_534, 65_535, 65_536, 65_600, 69_999] {
                t[p] = 0;
            }
            for off in [0usize, 254, 255, 256, 257, 65_533, 65_534, 65_535, 65_536, 65_537, 65_599, 65_600, 65_601, 69_998, 69_999, 70_000] {
                check_one(&t, off, out, &mut dig);
            }
        }
        for fill in 0..2 {
            let mut t: Vec<u8> = (0..4096).map(|i| if fill == 0 { b'a' + (i % 26) as u8 } else { [0xC3u8, 0xA9][i % 2] }).collect();
            t[p] = 0;
            for off in [0usize, 1, p.wrapping_sub(1), p, p + 1, 4094, 4095, 4096, 4097] {
                check_one(&t, off, out, &mut dig);
            }
        }
        out.nontrivial(dig.get() ^ idx);
    }
}

/// Tables of several 4 KiB blocks: a single NUL at positions around every block boundary (and at
/// in-block positions below / at / above the offset's own in-block position), offsets at the same
/// in-block positions of every block. `all` = the NUL at every position of blocks 1..3.
struct Blocks {
    all: bool,
}
const BLK: usize = 4096;
const BLK_LEN: usize = 3 * BLK + 7;
const BLK_R: [usize; 7] = [0, 1, 5, 100, 2048, 4086, 4095];
impl Blocks {
    fn positions(&self) -> Vec<usize> {
        if self.all {
            return (BLK - 2..BLK_LEN).collect();
        }
        let mut v = Vec::new();
        for b in 1..=3usize {
            for d in [-2i64, -1, 0, 1, 2, 4, 5, 6, 99, 100, 101, 2047, 2048, 2049, 4085, 4086, 4087] {
                let p = (b * BLK) as i64 + d;
                if p >= 0 && (p as usize) < BLK_LEN {
                    v.push(p as usize);
                }
            }
        }
        v
    }
}
impl Space for Blocks {
    fn name(&self) -> String {
        format!("tables of 3 x 4096 + 7 non-NUL bytes with a single NUL at position p ({}) x offsets b*4096 + r for b in 0..=2, r in {{0,1,5,100,2048,4086,4095}}, and p-1, p, p+1", if self.all { "every p from 4094 to the end" } else { "p within a few bytes of each 4096 multiple and of each multiple + r" })
    }
    fn size(&self) -> u64 {
        self.positions().len() as u64
    }
    fn describe(&self, idx: u64) -> Value {
        json!({"table_len": BLK_LEN, "nul_position": self.positions()[idx as usize]})
    }
    fn run(&self, idx: u64, out: &mut Outcome) {
        let p = self.positions()[idx as usize];
        let mut t: Vec<u8> = (0..BLK_LEN).map(|i| b'a' + (i % 25) as u8).collect();
        t[p] = 0;
        let mut dig = Fnv::new();
        let mut offs: Vec<usize> = Vec::new();
        for b in 0..=2usize {
            for r in BLK_R {
                offs.push(b * BLK + r);
            }
        }
        offs.extend([p.wrapping_sub(1), p, p + 1, BLK_LEN - 1, BLK_LEN]);
        for off in offs {
            check_one(&t, off, out, &mut dig);
        }
        out.nontrivial(dig.get() ^ idx);
    }
}

/// Long strings: one string of length L from offset 0 (and its suffixes) for L around 2^13 .. 2^17,
/// 2^24; with `huge` also 2^32.
struct LongStrings {
    huge: bool,
}
const LONG_L: [usize; 18] = [8191, 8192, 8193, 12288, 16383, 16384, 16385, 32767, 32768, 65534, 65535, 65536, 65537, 131071, 131072, 199_999, (1 << 24) - 1, (1 << 24) + 1];
impl Space for LongStrings {
    fn name(&self) -> String {
        format!("one NUL-free run of length L followed by NUL and 9 more bytes, L in {:?}{}; offsets {{0, 1, 4095, 4096, L-1, L, L+1, L+9}}", LONG_L, if self.huge { " and 2^32 - 1, 2^32 + 1" } else { "" })
    }
    fn size(&self) -> u64 {
        LONG_L.len() as u64 + if self.huge { 2 } else { 0 }
    }
    fn describe(&self, idx: u64) -> Value {
        json!({"run_length": self.len_of(idx)})
    }
    fn hang_secs(&self) -> u64 {
        600
    }
    fn chunk_hint(&self) -> u64 {
        1
    }
    fn run(&self, idx: u64, out: &mut Outcome) {
        let l = self.len_of(idx);
        let mut t: Vec<u8> = vec![b'x'; l + 10];
        t[l] = 0;
        for (k, b) in t[l + 1..].iter_mut().enumerate() {
            *b = b'0' + k as u8;
        }
        let mut dig = Fnv::new();
        for off in [0usize, 1, 4095, 4096, l - 1, l, l + 1, l + 9] {
            // the last 9 bytes have no terminator: missing-NUL error expected there
            check_one_quiet(&t, off, out, &mut dig);
        }
        out.nontrivial(dig.get() ^ idx);
    }
}
impl LongStrings {
    fn len_of(&self, idx: u64) -> usize {
        if (idx as usize) < LONG_L.len() {
            LONG_L[idx as usize]
        } else if idx as usize == LONG_L.len() {
            (1usize << 32) - 1
        } else {
            (1usize << 32) + 1
        }
    }
}

/// like check_one, but the failure text does not hex-dump a table of megabytes
fn check_one_quiet(tab: &[u8], off: usize, out: &mut Outcome, dig: &mut Fnv) {
    let st = StringTable::new(tab);
    out.transitions += 2;
    let want = ref_get_raw(tab, off);
    match subject(|| (st.get_raw(off).ok(), st.get(off).ok())) {
        Err(m) => out.violate(format!("panic:StringTable::get in {}", panic_site(&m)), format!("table of {} bytes, off {}: {}", tab.len(), off, m)),
        Ok((raw, s)) => {
            if raw != want {
                out.violate("get_raw:wrong result", format!("table of {} bytes with its first NUL at {}: get_raw({}) = {:?}, reference = {:?}", tab.len(), tab.len() - 10, off, raw.map(|r| r.len()), want.map(|w| w.len())));
            }
            let ws = want.and_then(|w| std::str::from_utf8(w).ok());
            if s != ws {
                out.violate("get:wrong result", format!("table of {} bytes: get({}) = {:?} bytes, reference = {:?} bytes", tab.len(), off, s.map(|r| r.len()), ws.map(|w| w.len())));
            }
            if let Some(w) = want {
                dig.u64(w.len() as u64);
            }
        }
    }
}

/// Byte walks around the terminator: table lengths around word boundaries, the NUL at every
/// position, the byte before it taking all 256 values, four fill patterns.
struct ByteWalk;
const BW_LENS: [usize; 7] = [8, 9, 15, 16, 17, 24, 31];
const BW_FILL: [u8; 4] = [0x41, 0x01, 0x80, 0xff];
impl Space for ByteWalk {
    fn name(&self) -> String {
        "byte walks: table length in {8,9,15,16,17,24,31} x NUL at every position x the byte before the NUL over all 256 values x fill byte in {41,01,80,ff}; every offset".into()
    }
    fn size(&self) -> u64 {
        (BW_LENS.iter().sum::<usize>() * 4) as u64
    }
    fn describe(&self, idx: u64) -> Value {
        let (len, p, f) = Self::decode(idx);
        json!({"len": len, "nul_position": p, "fill": format!("{:02x}", f), "byte_before_nul": "all 256 values"})
    }
    fn run(&self, idx: u64, out: &mut Outcome) {
        let (len, p, f) = Self::decode(idx);
        let mut dig = Fnv::new();
        for v in 0..=255u8 {
            let mut t = vec![f; len];
            t[p] = 0;
            if p > 0 {
                t[p - 1] = v;
            }
            for off in 0..=len {
                check_one(&t, off, out, &mut dig);
            }
        }
        out.nontrivial(dig.get() ^ idx);
    }
}
impl ByteWalk {
    fn decode(idx: u64) -> (usize, usize, u8) {
        let f = BW_FILL[(idx % 4) as usize];
        let mut k = (idx / 4) as usize;
        for l in BW_LENS {
            if k < l {
                return (l, k, f);
            }
            k -= l;
        }
        (8, 0, f)
    }
}

pub fn build(tier: Tier) -> CheckDef {
    CheckDef {
        prop: "C15",
        level: "model_checking",
        rule: "exhaustive small-scope enumeration: every (table, offset) pair of the stated finite space is executed on the real StringTable and compared with the reference definition (longest NUL-free run iff offset inside and a NUL follows; get = the same bytes iff valid UTF-8). non-trivial = table with at least one valid string; distinct = distinct set of returned strings".into(),
        assumptions: vec!["alphabet {NUL, ASCII, UTF-8 lead byte C3, continuation byte A9}".into()],
        spaces: vec![Box::new(Small { maxlen: tier.pick(8, 10) }), Box::new(Large { step: tier.pick(16, 1) }), Box::new(ByteWalk), Box::new(Blocks { all: tier == Tier::Thorough }), Box::new(LongStrings { huge: tier == Tier::Thorough })],
        abort_is_violation: false,
        hang_is_violation: false,
        exhaustive: true,
        bounds: json!({"small_tables_max_len": tier.pick(8, 10), "large_table_nul_positions": tier.pick("every 16th", "all 4096"), "multi_block_nul_positions": tier.pick("around block boundaries", "every position"), "longest_string": tier.pick("2^24+1", "2^32+1")}),
    }
}
