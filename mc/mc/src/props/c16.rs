//! C16 — every lookup and iteration terminates within work bounded by the input size.
use super::c01::spaces_for;
use super::slice_oracles::Mode;
use super::standalone::Also;
use crate::framework::*;
use serde_json::json;

/// `while it.nth(k).is_some()` / `skip(k)` drain loops: every way of driving an entry or note iterator
/// must come to an end after at most one item per input byte.
struct DrainLoops;
impl Space for DrainLoops {
    fn name(&self) -> String {
        "drain loops `while it.nth(k).is_some()` after j x next(), k in {0,1,2,usize::MAX,usize::MAX/entsize,usize::MAX/entsize+1,2^63}, j in {0,1,2}: ParsingIterator over {Symbol, Rel, Rela, Dyn, u32, u64} x 4 encodings x byte lengths {0, ent, 3*ent+1, 40*ent}; NoteIterator over 3 notes x alignments {1,4,8}".into()
    }
    fn size(&self) -> u64 {
        6 * 4 + 4
    }
    fn describe(&self, idx: u64) -> serde_json::Value {
        json!({"iterator": if idx < 24 { "ParsingIterator" } else { "NoteIterator" }, "case": idx})
    }
    fn run(&self, idx: u64, out: &mut Outcome) {
        use crate::alloc::subject;
        use elf::endian::AnyEndian;
        use elf::parse::{ParseAt, ParsingIterator};
        use refmodel::layout::*;
        fn drain<I: Iterator>(mk: &dyn Fn() -> I, bytes: usize, ent: usize, what: &str, out: &mut Outcome) {
            for j in 0..3usize {
                for k in [0usize, 1, 2, usize::MAX, usize::MAX / ent.max(1), usize::MAX / ent.max(1) + 1, 1 << 63] {
                    let r = subject(|| {
                        let mut it = mk();
                        for _ in 0..j {
                            it.next();
                        }
                        let mut count = 0usize;
                        while it.nth(k).is_some() {
                            count += 1;
                            if count > bytes + 2 {
                                return None;
                            }
                        }
                        Some(count)
                    });
                    out.transitions += 1;
                    match r {
                        Err(m) => out.violate(format!("panic:{what} drain loop in {}", super::slice_oracles::panic_site(&m)), m),
                        Ok(None) => out.violate(format!("runaway:{what}::nth"), format!("`while it.nth({k}).is_some()` after {j} x next() yields more than {} items from {bytes} bytes", bytes + 2)),
                        Ok(Some(_)) => {}
                    }
                }
            }
        }
        fn per_type<P: ParseAt>(enc: Enc, who: &str, out: &mut Outcome) {
            let e = if enc.order == Order::Lsb { AnyEndian::Little } else { AnyEndian::Big };
            let c = if enc.class == Class::C32 { elf::file::Class::ELF32 } else { elf::file::Class::ELF64 };
            let ent = P::size_for(c);
            for blen in [0, ent, 3 * ent + 1, 40 * ent] {
                let data: Vec<u8> = (0..blen).map(|i| (i * 37 % 251) as u8).collect();
                drain(&|| ParsingIterator::<AnyEndian, P>::new(e, c, &data), blen, ent, who, out);
            }
        }
        if idx < 24 {
            let enc = ENCS[(idx % 4) as usize];
            match idx / 4 {
                0 => per_type::<elf::symbol::Symbol>(enc, "ParsingIterator<Symbol>", out),
                1 => per_type::<elf::relocation::Rel>(enc, "ParsingIterator<Rel>", out),
                2 => per_type::<elf::relocation::Rela>(enc, "ParsingIterator<Rela>", out),
                3 => per_type::<elf::dynamic::Dyn>(enc, "ParsingIterator<Dyn>", out),
                4 => per_type::<u32>(enc, "ParsingIterator<u32>", out),
                _ => per_type::<u64>(enc, "ParsingIterator<u64>", out),
            }
        } else {
            let enc = ENCS[(idx - 24) as usize];
            let e = if enc.order == Order::Lsb { AnyEndian::Little } else { AnyEndian::Big };
            let c = if enc.class == Class::C32 { elf::file::Class::ELF32 } else { elf::file::Class::ELF64 };
            for align in [1usize, 4, 8] {
                let notes = vec![
                    refmodel::notes::NoteSpec { n_type: 3, name: b"GNU\0".to_vec(), desc: vec![1, 2, 3, 4, 5] },
                    refmodel::notes::NoteSpec { n_type: 7, name: b"ab".to_vec(), desc: vec![9; 3] },
                    refmodel::notes::NoteSpec { n_type: 1, name: b"GNU\0".to_vec(), desc: vec![0; 16] },
                ];
                let data = refmodel::notes::build_notes(enc.order, align, &notes, 0);
                drain(&|| elf::note::NoteIterator::new(e, c, align, &data), data.len(), 12, "NoteIterator", out);
            }
        }
        out.nontrivial(idx ^ 0xd7a1);
    }
}

/// Cycles among the sh_link fields of the table sections: whatever follows links must come to an end.
struct LinkCycles;
const LC_SECS: [usize; 10] = [2, 4, 5, 6, 7, 8, 9, 12, 13, 14]; // dynsym, versym, verneed, verdef, hash, gnu.hash, dynamic, rel, rela, symtab
impl Space for LinkCycles {
    fn name(&self) -> String {
        "sh_link cycles among {.dynsym, .gnu.version, .gnu.version_r, .gnu.version_d, .hash, .gnu.hash, .dynamic, .rel, .rela, .symtab} of the tiny-full object: all 90 ordered 2-cycles and 720 ordered 3-cycles x 2 encodings; the whole slice API (bounded item counts) and every ElfStream accessor must return (watchdog)".into()
    }
    fn size(&self) -> u64 {
        (90 + 720) * 2
    }
    fn describe(&self, idx: u64) -> serde_json::Value {
        let (enc, cyc) = Self::decode(idx);
        json!({"encoding": refmodel::layout::ENCS[enc].name(), "cycle_of_section_indexes": cyc})
    }
    fn run(&self, idx: u64, out: &mut Outcome) {
        use crate::alloc::subject;
        use refmodel::image::TableOrder;
        let (enc_i, cyc) = Self::decode(idx);
        let enc = refmodel::layout::ENCS[enc_i];
        let (mut b, _) = crate::skeleton::tiny_full(enc, TableOrder::Linker);
        for (k, s) in cyc.iter().enumerate() {
            let next = cyc[(k + 1) % cyc.len()];
            b.patch(&format!("shdr[{}].sh_link", s), next as u64);
        }
        super::slice_oracles::slice_check(Mode::Bounded, enc.order, &b.bytes, out);
        // the stream parser's accessors on the same file
        let r = subject(|| {
            use elf::endian::AnyEndian;
            let mut n = 0u64;
            if let Ok(mut f) = elf::ElfStream::<AnyEndian, _>::open_stream(std::io::Cursor::new(b.bytes.clone())) {
                n += f.symbol_version_table().map(|t| t.is_some() as u64).unwrap_or(2);
                n += f.symbol_table().map(|t| t.is_some() as u64).unwrap_or(2);
                n += f.dynamic_symbol_table().map(|t| t.is_some() as u64).unwrap_or(2);
                n += f.dynamic().map(|t| t.is_some() as u64).unwrap_or(2);
                n += f.section_headers_with_strtab().map(|t| t.1.is_some() as u64).unwrap_or(2);
                n += f.section_header_by_name(".dynsym").map(|t| t.is_some() as u64).unwrap_or(2);
            }
            n
        });
        out.transitions += 6;
        if let Err(m) = r {
            out.violate(format!("panic:ElfStream accessors in {}", super::slice_oracles::panic_site(&m)), format!("link cycle {:?}: {m}", cyc));
        }
    }
}
impl LinkCycles {
    fn decode(idx: u64) -> (usize, Vec<usize>) {
        let enc = if idx % 2 == 0 { 2 } else { 1 };
        let k = (idx / 2) as usize;
        if k < 90 {
            let (a, b) = (k / 9, k % 9);
            let b = if b >= a { b + 1 } else { b };
            (enc, vec![LC_SECS[a], LC_SECS[b]])
        } else {
            let k = k - 90;
            let a = k / 72;
            let r = k % 72;
            let mut rest: Vec<usize> = (0..10).filter(|x| *x != a).collect();
            let b = rest.remove(r / 8);
            let c = rest[r % 8];
            (enc, vec![LC_SECS[a], LC_SECS[b], LC_SECS[c]])
        }
    }
}

pub fn build(tier: Tier) -> CheckDef {
    let (mut spaces, bounds) = spaces_for(tier, Mode::Bounded, Also::Bounded, "C16 bounded work");
    spaces.extend(super::c16_graphs::spaces(tier));
    spaces.push(Box::new(DrainLoops));
    spaces.push(Box::new(LinkCycles));
    // entry iterators handed out by both parsers end with their bytes whatever entry size the header declares
    spaces.push(Box::new(super::c09::FileTables));
    CheckDef {
        prop: "C16",
        level: "model_checking",
        rule: "complete enumeration of adversarial link structures (all functional graphs on <= n chain slots, all stop-bit patterns, all next/aux/count combinations over the boundary alphabet, 64 KiB scale families) and of the C01 lattice; every iterator must yield <= bytes (+2) items, version iterators <= declared count, every case must return before the watchdog (20 s; legitimate worst case measured well below 2 s)".into(),
        assumptions: vec!["the time clause is a measurement with a wide margin, not a complexity proof".into()],
        spaces,
        abort_is_violation: false,
        hang_is_violation: true,
        exhaustive: true,
        bounds: json!({"lattice": bounds, "functional_graph_nodes": tier.pick(4, 6)}),
    }
}
