//! C16 — every lookup and iteration terminates within work bounded by the input size.
use super::c01::spaces_for;
use super::slice_oracles::Mode;
use super::standalone::Also;
use crate::framework::*;
use serde_json::json;

pub fn build(tier: Tier) -> CheckDef {
    let (mut spaces, bounds) = spaces_for(tier, Mode::Bounded, Also::Bounded, "C16 bounded work");
    spaces.extend(super::c16_graphs::spaces(tier));
    CheckDef {
        prop: "C16",
        level: "model_checking",
        rule: "complete enumeration of adversarial link structures (all functional graphs on <= n chain slots, all stop-bit patterns, all next/aux/count combinations over the boundary alphabet, 64 KiB scale families) and of the C01 lattice; every iterator must yield <= bytes (+2) items, version iterators <= declared count, every case must return before the watchdog (20 s; legitimate worst case measured well below 2 s)".into(),
        assumptions: vec!["the time clause is a measurement with a wide margin, not a complexity proof".into()],
        spaces,
        abort_is_violation: false,
        hang_is_violation: true,
        exhaustive: true,
        bounds: json!({"lattice": bounds, "functional_graph_nodes": tier.pick(4, 6)}),
    }
}
