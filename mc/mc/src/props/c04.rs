//! C04 — endian-aware integer reads return the exact value and advance exactly.
use super::common::*;
use crate::alloc::subject;
use crate::framework::*;
use crate::util::*;
use refmodel::layout::{extend, get};
use serde_json::{json, Value};

const WIDTHS: [(usize, bool, &str); 6] =
    [(1, false, "u8"), (2, false, "u16"), (4, false, "u32"), (8, false, "u64"), (4, true, "i32"), (8, true, "i64")];

/// One read with spec `$e`; returns (Ok(value as u64 bit pattern) | Err, offset afterwards)
macro_rules! read_w {
    ($e:ident, $w:expr, $off:expr, $buf:expr) => {{
        let mut o: usize = $off;
        let r: Result<u64, ()> = match $w {
            0 => $e.parse_u8_at(&mut o, $buf).map(|v| v as u64).map_err(|_| ()),
            1 => $e.parse_u16_at(&mut o, $buf).map(|v| v as u64).map_err(|_| ()),
            2 => $e.parse_u32_at(&mut o, $buf).map(|v| v as u64).map_err(|_| ()),
            3 => $e.parse_u64_at(&mut o, $buf).map_err(|_| ()),
            4 => $e.parse_i32_at(&mut o, $buf).map(|v| v as i64 as u64).map_err(|_| ()),
            _ => $e.parse_i64_at(&mut o, $buf).map(|v| v as u64).map_err(|_| ()),
        };
        (r, o)
    }};
}

/// Check every (spec, width) at (buf, off). Returns folded digest and number of Ok reads.
fn check_point(buf: &[u8], off: usize, out: &mut Outcome, dig: &mut Fnv) -> u32 {
    let mut oks = 0;
    for w in 0..6 {
        let (width, signed, wname) = WIDTHS[w];
        let fits = off.checked_add(width).map_or(false, |e| e <= buf.len());
        let mut per_spec: [Option<u64>; NSPEC] = [None; NSPEC];
        for sp in 0..NSPEC {
            let res = with_spec!(sp, |e, order| {
                let r = subject(|| read_w!(e, w, off, buf));
                (r, order)
            });
            out.transitions += 1;
            let (r, order) = res;
            match r {
                Err(p) => out.violate(
                    format!("panic:{}::parse_{}_at", SPEC_NAMES[sp], wname),
                    format!("panic reading {} at off={} len={}: {}", wname, off, buf.len(), p),
                ),
                Ok((val, newoff)) => {
                    if fits {
                        let expect = extend(get(buf, off, width, order), width, signed);
                        if val != Ok(expect) {
                            out.violate(
                                format!("value:{}::parse_{}_at", SPEC_NAMES[sp], wname),
                                format!("buf={} off={} got {:x?} want {:#x}", hex(buf), off, val, expect),
                            );
                        }
                        if newoff != off + width {
                            out.violate(
                                format!("cursor:{}::parse_{}_at", SPEC_NAMES[sp], wname),
                                format!("buf={} off={} cursor {} want {}", hex(buf), off, newoff, off + width),
                            );
                        }
                        oks += 1;
                        per_spec[sp] = val.ok();
                        dig.u64(val.unwrap_or(0));
                    } else {
                        if val.is_ok() {
                            out.violate(
                                format!("no-error:{}::parse_{}_at", SPEC_NAMES[sp], wname),
                                format!("buf={} off={} returned Ok with fewer than {} bytes left", hex(buf), off, width),
                            );
                        }
                        if newoff != off {
                            out.violate(
                                format!("cursor-moved-on-error:{}::parse_{}_at", SPEC_NAMES[sp], wname),
                                format!("buf={} off={} cursor moved to {} on a failed read", hex(buf), off, newoff),
                            );
                        }
                    }
                }
            }
        }
        // run-time spec == compile-time spec; native == target
        if fits {
            if per_spec[0] != per_spec[2] || per_spec[1] != per_spec[3] {
                out.violate(format!("any-vs-fixed:parse_{}_at", wname), format!("buf={} off={}", hex(buf), off));
            }
            let nat = fixed_spec(native_order());
            if per_spec[4] != per_spec[nat] {
                out.violate(format!("native-vs-target:parse_{}_at", wname), format!("buf={} off={}", hex(buf), off));
            }
        }
    }
    oks
}

/// All byte strings of length <= maxlen (index = position in length-then-lexicographic order),
/// every offset 0..len+9.
pub struct ShortBuffers {
    pub maxlen: usize,
}
impl ShortBuffers {
    fn buf(&self, mut idx: u64) -> Vec<u8> {
        let mut len = 0usize;
        loop {
            let n = 256u64.pow(len as u32);
            if idx < n {
                break;
            }
            idx -= n;
            len += 1;
        }
        let mut b = vec![0u8; len];
        for i in 0..len {
            b[i] = (idx & 0xff) as u8;
            idx >>= 8;
        }
        b
    }
}
impl Space for ShortBuffers {
    fn name(&self) -> String {
        format!("all byte strings of length <= {} x offsets 0..len+9 x 5 specs x 6 widths", self.maxlen)
    }
    fn size(&self) -> u64 {
        (0..=self.maxlen as u32).map(|l| 256u64.pow(l)).sum()
    }
    fn describe(&self, idx: u64) -> Value {
        json!({"buffer_hex": hex(&self.buf(idx)), "offsets": "0..len+9"})
    }
    fn run(&self, idx: u64, out: &mut Outcome) {
        let b = self.buf(idx);
        let mut dig = Fnv::new();
        let mut oks = 0;
        for off in 0..=b.len() + 9 {
            oks += check_point(&b, off, out, &mut dig);
        }
        if oks > 0 {
            out.nontrivial(dig.get());
            out.count("case_with_ok_read");
        } else {
            out.count("case_all_err");
        }
    }
}

/// Byte walks: len 0..17 x base pattern x byte position x 256 values; offsets 0..len+9 and
/// usize::MAX-8..=usize::MAX.
pub struct ByteWalks;
const BW_RADICES: [u64; 3] = [154, 3, 256];
fn bw_pairs() -> Vec<(usize, usize)> {
    // (len, walked position): len 0..=17, position 0..len (one dummy position for len 0)
    let mut v = Vec::new();
    for len in 0..=17usize {
        for pos in 0..len.max(1) {
            v.push((len, pos));
        }
    }
    v
}
impl ByteWalks {
    fn buf(&self, idx: u64) -> (Vec<u8>, usize) {
        let d = unmix(idx, &BW_RADICES);
        let (len, pos) = bw_pairs()[d[0] as usize];
        let mut b: Vec<u8> = match d[1] {
            0 => vec![0u8; len],
            1 => vec![0xffu8; len],
            _ => (0..len).map(|i| 0x11u8.wrapping_mul(i as u8 + 1) ^ 0x80).collect(),
        };
        if pos < len {
            b[pos] = d[2] as u8;
        }
        (b, pos)
    }
}
impl Space for ByteWalks {
    fn name(&self) -> String {
        "byte walks: len 0..17 x {00,ff,distinct} x position x 256 values; offsets 0..len+9 and usize::MAX-8..=usize::MAX".into()
    }
    fn size(&self) -> u64 {
        assert_eq!(bw_pairs().len() as u64, BW_RADICES[0]);
        product(&BW_RADICES)
    }
    fn describe(&self, idx: u64) -> Value {
        let (b, pos) = self.buf(idx);
        json!({"buffer_hex": hex(&b), "walked_position": pos})
    }
    fn run(&self, idx: u64, out: &mut Outcome) {
        let (b, _pos) = self.buf(idx);
        let mut dig = Fnv::new();
        let mut oks = 0;
        for off in 0..=b.len() + 9 {
            oks += check_point(&b, off, out, &mut dig);
        }
        for k in 0..=8usize {
            oks += check_point(&b, usize::MAX - k, out, &mut dig);
        }
        if oks > 0 {
            out.nontrivial(dig.get());
            out.count("case_with_ok_read");
        } else {
            out.count("case_all_err");
        }
    }
}

/// The integer entry types of the lazy tables (`impl ParseAt for u32 / u64`) are the same reads:
/// same value, same advance, same failure, for both classes and at every (also unaligned) offset.
pub struct ParseAtInts;
impl Space for ParseAtInts {
    fn name(&self) -> String {
        "<u32 as ParseAt>::parse_at and <u64 as ParseAt>::parse_at vs parse_u32_at / parse_u64_at: buffer length 0..=17 x every offset 0..=len+9 x both classes x 5 specs x 3 byte patterns (value, cursor, Ok/Err must coincide; size_for is 4 / 8 for both classes)".into()
    }
    fn size(&self) -> u64 {
        18 * 3
    }
    fn describe(&self, idx: u64) -> Value {
        json!({"buffer_len": idx % 18, "pattern": idx / 18})
    }
    fn run(&self, idx: u64, out: &mut Outcome) {
        use elf::parse::ParseAt;
        let len = (idx % 18) as usize;
        let b: Vec<u8> = match idx / 18 {
            0 => (0..len).map(|i| 0x11u8.wrapping_mul(i as u8 + 1) ^ 0x80).collect(),
            1 => vec![0xff; len],
            _ => (0..len).map(|i| i as u8).collect(),
        };
        let mut dig = Fnv::new();
        for class in [elf::file::Class::ELF32, elf::file::Class::ELF64] {
            if <u32 as ParseAt>::size_for(class) != 4 || <u64 as ParseAt>::size_for(class) != 8 {
                out.violate("size_for:integer entry types", format!("{:?}: u32 {} u64 {}", class, <u32 as ParseAt>::size_for(class), <u64 as ParseAt>::size_for(class)));
            }
            for off in 0..=len + 9 {
                for sp in 0..NSPEC {
                    with_spec!(sp, |e, _order| {
                        let r = subject(|| {
                            let (mut a, mut b2, mut c, mut d) = (off, off, off, off);
                            let x = e.parse_u32_at(&mut a, &b).ok();
                            let y = <u32 as ParseAt>::parse_at(e, class, &mut b2, &b).ok();
                            let z = e.parse_u64_at(&mut c, &b).ok();
                            let w = <u64 as ParseAt>::parse_at(e, class, &mut d, &b).ok();
                            (x, a, y, b2, z, c, w, d)
                        });
                        out.transitions += 4;
                        match r {
                            Err(m) => out.violate(format!("panic:{}::ParseAt for integers", SPEC_NAMES[sp]), m),
                            Ok((x, a, y, b2, z, c, w, d)) => {
                                if (x, a) != (y, b2) {
                                    out.violate(format!("parse_at-vs-read:{}::u32", SPEC_NAMES[sp]), format!("buf={} off={off} {:?}: read gives ({:?}, cursor {a}), <u32 as ParseAt>::parse_at gives ({:?}, cursor {b2})", hex(&b), class, x, y));
                                }
                                if (z, c) != (w, d) {
                                    out.violate(format!("parse_at-vs-read:{}::u64", SPEC_NAMES[sp]), format!("buf={} off={off} {:?}: read gives ({:?}, cursor {c}), <u64 as ParseAt>::parse_at gives ({:?}, cursor {d})", hex(&b), class, z, w));
                                }
                                dig.u64(x.unwrap_or(0) as u64 ^ z.unwrap_or(0));
                            }
                        }
                    });
                }
            }
        }
        out.nontrivial(dig.get() ^ idx);
    }
}

/// Offsets far beyond the buffer: around every power of two where an offset could be narrowed,
/// sign-converted or wrapped (2^7 .. 2^63), and the top of the usize range.
pub struct FarOffsets;
const FAR_LENS: [usize; 8] = [0, 1, 2, 4, 8, 9, 16, 24];
const FAR_POWS: [u32; 15] = [7, 8, 15, 16, 24, 31, 32, 33, 40, 47, 48, 56, 62, 63, 64];
impl Space for FarOffsets {
    fn name(&self) -> String {
        "buffer length in {0,1,2,4,8,9,16,24} x offsets 2^p + k (mod 2^64) for p in {7,8,15,16,24,31,32,33,40,47,48,56,62,63,64} and k in -17..=len+9 x 5 specs x 6 widths".into()
    }
    fn size(&self) -> u64 {
        (FAR_LENS.len() * FAR_POWS.len()) as u64
    }
    fn describe(&self, idx: u64) -> Value {
        json!({"buffer_len": FAR_LENS[idx as usize % 8], "offsets_around": format!("2^{}", FAR_POWS[idx as usize / 8])})
    }
    fn run(&self, idx: u64, out: &mut Outcome) {
        let len = FAR_LENS[idx as usize % 8];
        let p = FAR_POWS[idx as usize / 8];
        let base: usize = if p == 64 { 0 } else { 1usize << p };
        let b: Vec<u8> = (0..len).map(|i| 0x11u8.wrapping_mul(i as u8 + 1) ^ 0x80).collect();
        let mut dig = Fnv::new();
        let mut oks = 0;
        for k in -17i64..=(len as i64 + 9) {
            oks += check_point(&b, base.wrapping_add(k as usize), out, &mut dig);
        }
        // non-trivial when the crate answered every far offset (Ok only possible for p = 64, k inside)
        dig.u64(idx);
        out.nontrivial(dig.get() ^ oks as u64);
    }
}

/// All 2^32 values of a 4-byte buffer for u32/i32 (thorough). One case = 65536 values.
struct AllU32;
impl Space for AllU32 {
    fn name(&self) -> String {
        "all 2^32 four-byte buffers x {u32,i32} x 5 specs (65536 values per case)".into()
    }
    fn size(&self) -> u64 {
        65536
    }
    fn describe(&self, idx: u64) -> Value {
        json!({"values": format!("{:#x}0000..={:#x}ffff", idx, idx)})
    }
    fn run(&self, idx: u64, out: &mut Outcome) {
        let mut dig = Fnv::new();
        for lo in 0..65536u64 {
            let v = ((idx << 16) | lo) as u32;
            let b = v.to_le_bytes();
            for sp in 0..NSPEC {
                with_spec!(sp, |e, order| {
                    let want = get(&b, 0, 4, order);
                    let r = subject(|| {
                        let mut o = 0usize;
                        let a = e.parse_u32_at(&mut o, &b).ok();
                        let mut o2 = 0usize;
                        let c = e.parse_i32_at(&mut o2, &b).ok();
                        (a, o, c, o2)
                    });
                    out.transitions += 2;
                    match r {
                        Err(p) => out.violate(format!("panic:{}::parse_u32_at", SPEC_NAMES[sp]), p),
                        Ok((a, o, c, o2)) => {
                            if a != Some(want as u32) || o != 4 {
                                out.violate(
                                    format!("value:{}::parse_u32_at", SPEC_NAMES[sp]),
                                    format!("buf={} got {:?} cursor {}", hex(&b), a, o),
                                );
                            }
                            if c != Some(want as u32 as i32) || o2 != 4 {
                                out.violate(
                                    format!("value:{}::parse_i32_at", SPEC_NAMES[sp]),
                                    format!("buf={} got {:?} cursor {}", hex(&b), c, o2),
                                );
                            }
                            if sp == 0 {
                                dig.u64(a.unwrap_or(0) as u64);
                            }
                        }
                    }
                });
            }
        }
        out.nontrivial(dig.get());
    }
}

pub fn build(tier: Tier) -> CheckDef {
    let mut spaces: Vec<Box<dyn Space>> = Vec::new();
    spaces.push(Box::new(ShortBuffers { maxlen: tier.pick(2, 3) }));
    spaces.push(Box::new(ByteWalks));
    spaces.push(Box::new(FarOffsets));
    spaces.push(Box::new(ParseAtInts));
    if tier == Tier::Thorough {
        spaces.push(Box::new(AllU32));
    }
    CheckDef {
        prop: "C04",
        level: "model_checking",
        rule: "complete enumeration of (buffer, offset, width, spec); a case is one buffer with all its offsets; non-trivial = at least one read succeeded; distinct = distinct digest of all returned values".into(),
        assumptions: vec![
            "64-bit little-endian host only (NativeEndian on big-endian targets not explored)".into(),
            "u64/i64 value space covered by byte walks (complete for a byte-wise decoder), not by 2^64 enumeration".into(),
        ],
        spaces,
        abort_is_violation: false,
        hang_is_violation: false,
        exhaustive: true,
        bounds: json!({"short_buffer_maxlen": tier.pick(2, 3), "u32_full_domain": tier == Tier::Thorough}),
    }
}
