//! One module per property. `build` constructs the complete case spaces for a tier.
use crate::framework::{CheckDef, Tier};

#[macro_use]
pub mod common;
pub mod c01;
pub mod c02;
pub mod c03;
pub mod c04;
pub mod c05;
pub mod c06;
pub mod c07;
pub mod c08;
pub mod c09;
pub mod c10;
pub mod hash_props;
pub mod c13;
pub mod c14;
pub mod c15;
pub mod c16;
pub mod c16_graphs;
pub mod c17;
pub mod c18;
pub mod c19;
pub mod c20;
pub mod lattice_cfg;
pub mod slice_oracles;
pub mod standalone;
pub mod stream_props;

pub const ALL: &[&str] = &["C01", "C02", "C03", "C04", "C05", "C06", "C07", "C08", "C09", "C10", "C11", "C12", "C13", "C14", "C15", "C16", "C17", "C18", "C19", "C20"];

pub fn build(prop: &str, tier: Tier) -> Option<CheckDef> {
    match prop {
        "C01" => Some(c01::build(tier)),
        "C02" => Some(c02::build(tier)),
        "C03" => Some(c03::build(tier)),
        "C04" => Some(c04::build(tier)),
        "C05" => Some(c05::build(tier)),
        "C06" => Some(c06::build(tier)),
        "C07" => Some(c07::build(tier)),
        "C08" => Some(c08::build(tier)),
        "C09" => Some(c09::build(tier)),
        "C10" => Some(c10::build(tier)),
        "C11" => Some(hash_props::build_c11(tier)),
        "C12" => Some(hash_props::build_c12(tier)),
        "C13" => Some(c13::build(tier)),
        "C14" => Some(c14::build(tier)),
        "C15" => Some(c15::build(tier)),
        "C16" => Some(c16::build(tier)),
        "C17" => Some(c17::build(tier)),
        "C18" => Some(c18::build(tier)),
        "C19" => Some(c19::build(tier)),
        "C20" => Some(c20::build_def(tier)),
        _ => None,
    }
}
