//! One module per property. `build` constructs the complete case spaces for a tier.
use crate::framework::{CheckDef, Tier};

#[macro_use]
pub mod common;
pub mod c04;
pub mod c19;

pub const ALL: &[&str] = &["C04", "C19"];

pub fn build(prop: &str, tier: Tier) -> Option<CheckDef> {
    match prop {
        "C04" => Some(c04::build(tier)),
        "C19" => Some(c19::build(tier)),
        _ => None,
    }
}
