//! One module per property. `build` constructs the complete case spaces for a tier.
use crate::framework::{CheckDef, Tier};

#[macro_use]
pub mod common;
pub mod c01;
pub mod c04;
pub mod c06;
pub mod c16;
pub mod c16_graphs;
pub mod c19;
pub mod lattice_cfg;
pub mod slice_oracles;
pub mod standalone;

pub const ALL: &[&str] = &["C01", "C04", "C06", "C16", "C19"];

pub fn build(prop: &str, tier: Tier) -> Option<CheckDef> {
    match prop {
        "C01" => Some(c01::build(tier)),
        "C04" => Some(c04::build(tier)),
        "C06" => Some(c06::build(tier)),
        "C16" => Some(c16::build(tier)),
        "C19" => Some(c19::build(tier)),
        _ => None,
    }
}
