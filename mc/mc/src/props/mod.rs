//! One module per property. `build` constructs the complete case spaces for a tier.
use crate::framework::{CheckDef, Tier};

#[macro_use]
pub mod common;
pub mod c01;
pub mod c02;
pub mod c03;
pub mod c04;
pub mod c05;
pub mod c06;
pub mod c07;
pub mod c08;
pub mod c09;
pub mod c10;
pub mod hash_props;
pub mod c13;
pub mod c14;
pub mod c15;
pub mod c16;
pub mod c16_graphs;
pub mod c17;
pub mod c18;
pub mod c19;
pub mod c20;
pub mod lattice_cfg;
pub mod slice_oracles;
pub mod standalone;
pub mod stream_props;

pub const ALL: &[&str] = &["C01", "C02", "C03", "C04", "C05", "C06", "C07", "C08", "C09", "C10", "C11", "C12", "C13", "C14", "C15", "C16", "C17", "C18", "C19", "C20"];

pub fn build(prop: &str, tier: Tier) -> Option<CheckDef> {
    match prop {
        "C01" => Some(c01::build(tier)),
        "C02" => Some(c02::build(tier)),
        "C03" => Some(c03::build(tier)),
        "C04" => Some(c04::build(tier)),
        "C05" => Some(c05::build(tier)),
        "C06" => Some(c06::build(tier)),
        "C07" => Some(c07::build(tier)),
        "C08" => Some(c08::build(tier)),
        "C09" => Some(c09::build(tier)),
        "C10" => Some(c10::build(tier)),
        "C11" => Some(hash_props::build_c11(tier)),
        "C12" => Some(hash_props::build_c12(tier)),
        "C13" => Some(c13::build(tier)),
        "C14" => Some(c14::build(tier)),
        "C15" => Some(c15::build(tier)),
        "C16" => Some(c16::build(tier)),
        "C17" => Some(c17::build(tier)),
        "C18" => Some(c18::build(tier)),
        "C19" => Some(c19::build(tier)),
        "C20" => Some(c20::build_def(tier)),
        _ => None,
    }
}

/// Surface audit: every `pub fn` of the crate (outside #[cfg(test)] modules) whose name does not
/// occur as a call in the harness sources is reported, so that coverage cannot erode silently.
pub fn surface_audit() -> serde_json::Value {
    let repo = crate::skeleton::repo_dir();
    let hsrc = crate::framework::verif_dir().join("mc").join("mc").join("src");
    let mut harness = String::new();
    fn slurp(dir: &std::path::Path, out: &mut String) {
        if let Ok(rd) = std::fs::read_dir(dir) {
            for e in rd.flatten() {
                let p = e.path();
                if p.is_dir() {
                    slurp(&p, out);
                } else if p.extension().map(|x| x == "rs").unwrap_or(false) {
                    out.push_str(&std::fs::read_to_string(&p).unwrap_or_default());
                }
            }
        }
    }
    slurp(&hsrc, &mut harness);
    let mut total = 0;
    let mut uncovered: Vec<String> = Vec::new();
    if let Ok(rd) = std::fs::read_dir(format!("{repo}/src")) {
        let mut files: Vec<_> = rd.flatten().map(|e| e.path()).collect();
        files.sort();
        for f in files {
            let txt = std::fs::read_to_string(&f).unwrap_or_default();
            // everything after the first #[cfg(test)] at column 0 is test code
            let body = match txt.find("\n#[cfg(test)]") {
                Some(p) => &txt[..p],
                None => &txt[..],
            };
            for line in body.lines() {
                let l = line.trim_start();
                if let Some(rest) = l.strip_prefix("pub fn ") {
                    let name: String = rest.chars().take_while(|c| c.is_alphanumeric() || *c == '_').collect();
                    total += 1;
                    let used = harness.contains(&format!(".{name}(")) || harness.contains(&format!("::{name}(")) || harness.contains(&format!("::{name}::<")) || harness.contains(&format!("{name},")) || harness.contains(&format!(" {name})")) || harness.contains(&format!("({name})"));
                    if !used {
                        uncovered.push(format!("{}::{}", f.file_stem().unwrap().to_string_lossy(), name));
                    }
                }
            }
        }
    }
    serde_json::json!({"pub_fns": total, "uncovered_pub_fns": uncovered})
}
