//! One module per property. `build` constructs the complete case spaces for a tier.
use crate::framework::{CheckDef, Tier};

#[macro_use]
pub mod common;
pub mod c04;

pub const ALL: &[&str] = &["C04"];

pub fn build(prop: &str, tier: Tier) -> Option<CheckDef> {
    match prop {
        "C04" => Some(c04::build(tier)),
        _ => None,
    }
}
