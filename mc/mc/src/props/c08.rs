//! C08 — stream parser's memory and I/O are bounded by the stream, not by header claims.
use super::lattice_cfg::lattice_spaces;
use super::stream_props::*;
use crate::framework::*;
use serde_json::json;

pub fn build(tier: Tier) -> CheckDef {
    let mut spaces: Vec<Box<dyn Space>> = vec![Box::new(StreamSpace { which: Which::C08, cases: stream_cases(tier, Which::C08), threads: tier.pick(4, 8), budget_secs: tier.pick(150, 7200) })];
    spaces.push(Box::new(Occupancy { which: Which::C08, max: tier.pick(72, 100) }));
    spaces.push(Box::new(OccupancyBig { which: Which::C08 }));
    spaces.push(Box::new(HugeSession { which: Which::C08, depth: tier.pick(2, 3), encs: tier.pick(1, 2) }));
    let (l, b) = lattice_spaces(tier, StreamLattice { which: Which::C08, open_dev: false }, "C08 stream bounds");
    spaces.extend(l);
    CheckDef {
        prop: "C08",
        level: "model_checking",
        rule: "every engine-S transition and every engine-L variant (headers claiming 2^16..2^64-1 in files of a few hundred bytes) on the stream parser: no panic/abort (process isolation; oversized requests are refused by the harness allocator so the abort is attributed), max single in-subject allocation <= 8*len+16 KiB, bytes read by open within [0,64) + the two header tables, bytes read by each query within the ranges the query designates (reference model, set inclusion)".into(),
        assumptions: vec![
            "allocation sizes are observed through the harness's global allocator; the bound 8*len+16KiB leaves slack over the implementation's <= 3.5*len (native ProgramHeader 56 B vs 32 B on disk, Vec doubling)".into(),
            "designated ranges are computed by an independent reference walk of the header tables".into(),
        ],
        spaces,
        abort_is_violation: true,
        hang_is_violation: false,
        exhaustive: true,
        bounds: json!({"lattice": b.text, "reader_deviations_per_transition": tier.pick(1, 2)}),
    }
}
