//! C02 — every ELF structure decodes exactly per the gABI layout for its class/order.
use super::common::*;
use super::slice_oracles::panic_site;
use crate::alloc::subject;
use crate::framework::*;
use crate::lattice::{v16, v32, v64, v8};
use crate::util::*;
use elf::parse::ParseAt;
use refmodel::layout::*;
use serde_json::{json, Value};

const KINDS_CHECKED: [Kind; 16] = [
    Kind::Ehdr,
    Kind::Shdr,
    Kind::Phdr,
    Kind::Sym,
    Kind::Rel,
    Kind::Rela,
    Kind::Dyn,
    Kind::Chdr,
    Kind::SysvHdr,
    Kind::GnuHdr,
    Kind::Versym,
    Kind::Verdef,
    Kind::Verdaux,
    Kind::Verneed,
    Kind::Vernaux,
    Kind::AbiTag,
];

fn dbg_field(text: &str, name: &str) -> Option<u64> {
    let p = text.find(&format!("{name}: "))? + name.len() + 2;
    let rest = &text[p..];
    let end = rest.find(|c: char| !c.is_ascii_digit()).unwrap_or(rest.len());
    rest[..end].parse().ok()
}

fn endian_of(enc: Enc) -> AnyEndian {
    if enc.order == Order::Lsb {
        AnyEndian::Little
    } else {
        AnyEndian::Big
    }
}

/// Decode with the crate. Returns the field values in the reference layout's field order
/// (None for a field the crate does not expose) and the number of bytes consumed.
fn crate_decode(kind: Kind, enc: Enc, buf: &[u8], off: usize) -> Result<Option<(Vec<Option<u64>>, usize)>, String> {
    let e = endian_of(enc);
    let c = class_of(enc);
    subject(|| {
        let mut o = off;
        let vals: Vec<Option<u64>> = match kind {
            Kind::Ehdr => {
                let ident = match elf::file::parse_ident::<AnyEndian>(&buf[off..off + 16]) {
                    Ok(i) => i,
                    Err(_) => return None,
                };
                let tail = if c == Class::ELF32 { 36 } else { 48 };
                let h = match elf::file::FileHeader::parse_tail(ident, &buf[off + 16..off + 16 + tail]) {
                    Ok(h) => h,
                    Err(_) => return None,
                };
                o = off + 16 + tail;
                vec![
                    None,
                    None,
                    None,
                    None,
                    Some(if h.class == Class::ELF32 { 1 } else { 2 }),
                    Some(if h.endianness == AnyEndian::Little { 1 } else { 2 }),
                    None,
                    Some(h.osabi as u64),
                    Some(h.abiversion as u64),
                    Some(h.e_type as u64),
                    Some(h.e_machine as u64),
                    Some(h.version as u64),
                    Some(h.e_entry),
                    Some(h.e_phoff),
                    Some(h.e_shoff),
                    Some(h.e_flags as u64),
                    Some(h.e_ehsize as u64),
                    Some(h.e_phentsize as u64),
                    Some(h.e_phnum as u64),
                    Some(h.e_shentsize as u64),
                    Some(h.e_shnum as u64),
                    Some(h.e_shstrndx as u64),
                ]
            }
            Kind::Shdr => {
                let h = elf::section::SectionHeader::parse_at(e, c, &mut o, buf).ok()?;
                [h.sh_name as u64, h.sh_type as u64, h.sh_flags, h.sh_addr, h.sh_offset, h.sh_size, h.sh_link as u64, h.sh_info as u64, h.sh_addralign, h.sh_entsize].iter().map(|x| Some(*x)).collect()
            }
            Kind::Phdr => {
                let p = elf::segment::ProgramHeader::parse_at(e, c, &mut o, buf).ok()?;
                [p.p_type as u64, p.p_offset, p.p_vaddr, p.p_paddr, p.p_filesz, p.p_memsz, p.p_flags as u64, p.p_align].iter().map(|x| Some(*x)).collect()
            }
            Kind::Sym => {
                let s = elf::symbol::Symbol::parse_at(e, c, &mut o, buf).ok()?;
                [s.st_name as u64, s.st_value, s.st_size, s.st_info as u64, s.st_other as u64, s.st_shndx as u64].iter().map(|x| Some(*x)).collect()
            }
            Kind::Rel => {
                let r = elf::relocation::Rel::parse_at(e, c, &mut o, buf).ok()?;
                // r_info is exposed split: re-pack per the ABI macros' inverse for comparison
                let info = if c == Class::ELF32 { ((r.r_sym as u64) << 8) | (r.r_type as u64 & 0xff) | ((r.r_type as u64 >> 8) << 40) } else { ((r.r_sym as u64) << 32) | r.r_type as u64 };
                vec![Some(r.r_offset), Some(info)]
            }
            Kind::Rela => {
                let r = elf::relocation::Rela::parse_at(e, c, &mut o, buf).ok()?;
                let info = if c == Class::ELF32 { ((r.r_sym as u64) << 8) | (r.r_type as u64 & 0xff) | ((r.r_type as u64 >> 8) << 40) } else { ((r.r_sym as u64) << 32) | r.r_type as u64 };
                vec![Some(r.r_offset), Some(info), Some(r.r_addend as u64)]
            }
            Kind::Dyn => {
                let d = elf::dynamic::Dyn::parse_at(e, c, &mut o, buf).ok()?;
                if d.d_val() != d.d_ptr() {
                    return Some((vec![Some(u64::MAX), Some(0)], 0));
                }
                vec![Some(d.d_tag as u64), Some(d.d_val())]
            }
            Kind::Chdr => {
                let h = elf::compression::CompressionHeader::parse_at(e, c, &mut o, buf).ok()?;
                vec![Some(h.ch_type as u64), Some(h.ch_size), Some(h.ch_addralign)]
            }
            Kind::SysvHdr => {
                let h = elf::hash::SysVHashHeader::parse_at(e, c, &mut o, buf).ok()?;
                vec![Some(h.nbucket as u64), Some(h.nchain as u64)]
            }
            Kind::GnuHdr => {
                let h = elf::hash::GnuHashHeader::parse_at(e, c, &mut o, buf).ok()?;
                vec![Some(h.nbucket as u64), Some(h.table_start_idx as u64), Some(h.nbloom as u64), Some(h.nshift as u64)]
            }
            Kind::Versym => {
                let v = elf::gnu_symver::VersionIndex::parse_at(e, c, &mut o, buf).ok()?;
                vec![Some(v.0 as u64)]
            }
            Kind::Verdef => {
                let v = elf::gnu_symver::VerDef::parse_at(e, c, &mut o, buf).ok()?;
                let t = crate::alloc::outside(|| format!("{:?}", v));
                vec![Some(1), Some(v.vd_flags as u64), Some(v.vd_ndx as u64), Some(v.vd_cnt as u64), Some(v.vd_hash as u64), dbg_field(&t, "vd_aux"), dbg_field(&t, "vd_next")]
            }
            Kind::Verdaux => {
                let v = elf::gnu_symver::VerDefAux::parse_at(e, c, &mut o, buf).ok()?;
                let t = crate::alloc::outside(|| format!("{:?}", v));
                vec![Some(v.vda_name as u64), dbg_field(&t, "vda_next")]
            }
            Kind::Verneed => {
                let v = elf::gnu_symver::VerNeed::parse_at(e, c, &mut o, buf).ok()?;
                let t = crate::alloc::outside(|| format!("{:?}", v));
                vec![Some(1), Some(v.vn_cnt as u64), Some(v.vn_file as u64), dbg_field(&t, "vn_aux"), dbg_field(&t, "vn_next")]
            }
            Kind::Vernaux => {
                let v = elf::gnu_symver::VerNeedAux::parse_at(e, c, &mut o, buf).ok()?;
                let t = crate::alloc::outside(|| format!("{:?}", v));
                vec![Some(v.vna_hash as u64), Some(v.vna_flags as u64), Some(v.vna_other as u64), Some(v.vna_name as u64), dbg_field(&t, "vna_next")]
            }
            Kind::AbiTag => {
                let t = elf::note::NoteGnuAbiTag::parse_at(e, c, &mut o, buf).ok()?;
                vec![Some(t.os as u64), Some(t.major as u64), Some(t.minor as u64), Some(t.subminor as u64)]
            }
            Kind::Nhdr => return None,
        };
        Some((vals, o - off))
    })
}

fn values(width: usize) -> Vec<u64> {
    match width {
        1 => v8(),
        2 => v16(),
        4 => v32(),
        _ => v64(),
    }
}

/// fields whose value must stay valid for the structure to parse at all
fn pinned(kind: Kind, field: &str) -> bool {
    match kind {
        Kind::Ehdr => matches!(field, "ei_mag0" | "ei_mag1" | "ei_mag2" | "ei_mag3" | "ei_class" | "ei_data" | "ei_version"),
        Kind::Verdef => field == "vd_version",
        Kind::Verneed => field == "vn_version",
        _ => false,
    }
}

fn base_values(kind: Kind, enc: Enc, base: u64) -> Vec<u64> {
    let l = layout(kind, enc.class);
    l.fields
        .iter()
        .enumerate()
        .map(|(i, f)| {
            if pinned(kind, f.name) {
                return match f.name {
                    "ei_mag0" => 0x7f,
                    "ei_mag1" => b'E' as u64,
                    "ei_mag2" => b'L' as u64,
                    "ei_mag3" => b'F' as u64,
                    "ei_class" => enc.ei_class() as u64,
                    "ei_data" => enc.ei_data() as u64,
                    _ => 1,
                };
            }
            match base {
                0 => 0,
                1 => trunc(u64::MAX, f.width),
                _ => {
                    // per-byte distinct pattern with the top bit of every field set
                    let mut v = 0u64;
                    for b in 0..f.width as u64 {
                        v = (v << 8) | (0x81 + 0x10 * i as u64 + b) & 0xff;
                    }
                    v | (1u64 << (8 * f.width as u32 - 1))
                }
            }
        })
        .collect()
}

/// ELF32 relocation types are 8 bits wide: only the low byte of r_info's type part exists.
fn expected(kind: Kind, enc: Enc, vals: &[u64]) -> Vec<u64> {
    let l = layout(kind, enc.class);
    vals.iter().zip(l.fields.iter()).map(|(v, f)| extend(trunc(*v, f.width), f.width, f.signed)).collect()
}

struct Structs {
    pairs: bool,
}
impl Structs {
    fn dims(&self) -> [u64; 5] {
        // kind, enc, base, start offset, deviating field (22 = max field count)
        [KINDS_CHECKED.len() as u64, 4, 3, 3, 22]
    }
}
const STARTS: [usize; 3] = [0, 1, 7];
impl Space for Structs {
    fn name(&self) -> String {
        format!(
            "every on-disk structure (16 kinds) x 4 encodings x base assignments {{zeros, ones, per-byte distinct with top bits set}} x start offsets {{0,1,7}} x every field x every value of V(width){}",
            if self.pairs { " x every second field x every value (2 deviations)" } else { "" }
        )
    }
    fn size(&self) -> u64 {
        product(&self.dims())
    }
    fn describe(&self, idx: u64) -> Value {
        let d = unmix(idx, &self.dims());
        let kind = KINDS_CHECKED[d[0] as usize];
        let enc = ENCS[d[1] as usize];
        let l = layout(kind, enc.class);
        let bname = ["zeros", "ones", "distinct"][d[2] as usize];
        json!({"structure": l.name, "encoding": enc.name(), "base": bname, "start_offset": STARTS[d[3] as usize], "deviating_field": l.fields.get(d[4] as usize).map(|f| f.name)})
    }
    fn run(&self, idx: u64, out: &mut Outcome) {
        let d = unmix(idx, &self.dims());
        let kind = KINDS_CHECKED[d[0] as usize];
        let enc = ENCS[d[1] as usize];
        let l = layout(kind, enc.class);
        let fi = d[4] as usize;
        if fi >= l.fields.len() {
            out.count("no_such_field");
            return;
        }
        let start = STARTS[d[3] as usize];
        let base = base_values(kind, enc, d[2]);
        let mut dig = Fnv::new();
        let mut check = |vals: &[u64], out: &mut Outcome| -> bool {
            let mut buf = vec![0xA5u8; start];
            buf.extend_from_slice(&encode(kind, enc, vals, 0x5A));
            buf.extend_from_slice(&[0xEE; 3]);
            out.transitions += 1;
            let got = match crate_decode(kind, enc, &buf, start) {
                Err(m) => {
                    out.violate(format!("panic:{}::parse_at in {}", l.name, panic_site(&m)), m);
                    return false;
                }
                Ok(None) => {
                    out.violate(format!("decode-fails:{}", l.name), format!("{} {}: well-formed encoding of {:x?} does not parse", l.name, enc.name(), vals));
                    return false;
                }
                Ok(Some(g)) => g,
            };
            let want = expected(kind, enc, vals);
            let (fields, consumed) = got;
            if consumed != l.size {
                out.violate(format!("size:{}", l.name), format!("{} {}: consumed {} bytes, the ABI size is {}", l.name, enc.name(), consumed, l.size));
                return false;
            }
            for (k, f) in l.fields.iter().enumerate() {
                if let Some(g) = fields[k] {
                    let mut w = want[k];
                    if f.name == "r_info" && enc.class == refmodel::layout::Class::C32 {
                        // re-packed above from (sym = info >> 8, type = info & 0xff)
                        w = (elf32_r_sym(w) << 8) | elf32_r_type(w);
                    }
                    if g != w {
                        out.violate(
                            format!("field:{}.{}", l.name, f.name),
                            format!("{} {} at offset {}: field {} decoded as {:#x}, the ABI layout gives {:#x} (all values {:x?})", l.name, enc.name(), start, f.name, g, w, vals),
                        );
                        return false;
                    }
                    dig.u64(g);
                }
            }
            true
        };
        if pinned(kind, l.fields[fi].name) {
            check(&base, out);
            out.nontrivial(dig.get() ^ idx);
            out.count("pinned_field_base_only");
            return;
        }
        'outer: for v in values(l.fields[fi].width) {
            let mut vals = base.clone();
            vals[fi] = v;
            if !check(&vals, out) {
                break;
            }
            if self.pairs {
                for fj in fi + 1..l.fields.len() {
                    if pinned(kind, l.fields[fj].name) {
                        continue;
                    }
                    for w in values(l.fields[fj].width) {
                        let mut v2 = vals.clone();
                        v2[fj] = w;
                        if !check(&v2, out) {
                            break 'outer;
                        }
                    }
                }
            }
        }
        out.nontrivial(dig.get() ^ idx);
        out.count("field_cases");
    }
}

/// Derived accessors over their whole domain.
struct Accessors {
    full_rinfo: bool,
}
impl Space for Accessors {
    fn name(&self) -> String {
        format!(
            "st_info / st_other (all 256: st_bind, st_symtype, st_vis), st_shndx (all 65536: is_undefined), VersionIndex (all 65536: index, is_hidden, is_local, is_global), d_val/d_ptr over V64, ELF32/ELF64 r_info splits over V32/V64{}",
            if self.full_rinfo { " and ELF32 r_info over all 2^32 values" } else { "" }
        )
    }
    fn size(&self) -> u64 {
        256 + 256 + 256 + 1 + 1 + if self.full_rinfo { 65536 } else { 0 }
    }
    fn describe(&self, idx: u64) -> Value {
        if idx < 256 {
            json!({"accessor": "st_info/st_other", "value": idx})
        } else if idx < 512 {
            json!({"accessor": "st_shndx block", "values": format!("{:#x}00..", idx - 256)})
        } else if idx < 768 {
            json!({"accessor": "VersionIndex block", "values": format!("{:#x}00..", idx - 512)})
        } else if idx == 768 {
            json!({"accessor": "d_val/d_ptr over V64"})
        } else if idx == 769 {
            json!({"accessor": "r_info splits over V32/V64"})
        } else {
            json!({"accessor": "ELF32 r_info", "values": format!("{:#x}0000..", idx - 770)})
        }
    }
    fn run(&self, idx: u64, out: &mut Outcome) {
        let mut dig = Fnv::new();
        let sym = |info: u8, other: u8, shndx: u16| elf::symbol::Symbol { st_name: 0, st_shndx: shndx, st_info: info, st_other: other, st_value: 0, st_size: 0 };
        if idx < 256 {
            let b = idx as u8;
            let s = sym(b, b, 1);
            out.transitions += 3;
            if s.st_bind() != st_bind(b) || s.st_symtype() != st_type(b) {
                out.violate("accessor:st_info", format!("st_info={b:#x}: bind {} type {}", s.st_bind(), s.st_symtype()));
            }
            if s.st_vis() != st_visibility(b) {
                out.violate("accessor:st_vis", format!("st_other={b:#x}: vis {}", s.st_vis()));
            }
            dig.u64(s.st_bind() as u64 * 256 + s.st_symtype() as u64);
        } else if idx < 512 {
            for lo in 0..256u64 {
                let v = (((idx - 256) << 8) | lo) as u16;
                out.transitions += 1;
                if sym(0, 0, v).is_undefined() != (v == 0) {
                    out.violate("accessor:is_undefined", format!("st_shndx={v:#x}"));
                }
            }
            dig.u64(idx);
        } else if idx < 768 {
            for lo in 0..256u64 {
                let v = (((idx - 512) << 8) | lo) as u16;
                let x = elf::gnu_symver::VersionIndex(v);
                out.transitions += 4;
                if x.index() != v & 0x7fff || x.is_hidden() != (v & 0x8000 != 0) || x.is_local() != (v & 0x7fff == 0) || x.is_global() != (v & 0x7fff == 1) {
                    out.violate("accessor:VersionIndex", format!("raw {v:#x}: index {} hidden {} local {} global {}", x.index(), x.is_hidden(), x.is_local(), x.is_global()));
                }
            }
            dig.u64(idx);
        } else if idx == 768 {
            for enc in ENCS {
                for v in v64() {
                    let buf = encode(Kind::Dyn, enc, &[5, v], 0);
                    out.transitions += 1;
                    if let Ok(Some((f, _))) = crate_decode(Kind::Dyn, enc, &buf, 0) {
                        if f[1] != Some(trunc(v, enc.word())) {
                            out.violate("accessor:d_val", format!("{} d_un={v:#x}: {:?}", enc.name(), f));
                        }
                    }
                }
            }
            dig.u64(idx);
        } else if idx == 769 {
            for enc in ENCS {
                let e = endian_of(enc);
                let c = class_of(enc);
                let vals = if enc.class == refmodel::layout::Class::C32 { v32() } else { v64() };
                for info in vals {
                    let buf = encode(Kind::Rela, enc, &[0x10, info, 0], 0);
                    let mut o = 0;
                    out.transitions += 1;
                    if let Ok(r) = elf::relocation::Rela::parse_at(e, c, &mut o, &buf) {
                        let (s, t) = if enc.class == refmodel::layout::Class::C32 { (elf32_r_sym(info), elf32_r_type(info)) } else { (elf64_r_sym(info), elf64_r_type(info)) };
                        if r.r_sym as u64 != s || r.r_type as u64 != t {
                            out.violate("accessor:r_info split", format!("{} r_info={info:#x}: sym {:#x} type {:#x}, ABI macros give sym {s:#x} type {t:#x}", enc.name(), r.r_sym, r.r_type));
                        }
                    }
                }
            }
            dig.u64(idx);
        } else {
            let hi = idx - 770;
            let e = AnyEndian::Little;
            for lo in 0..65536u64 {
                let info = (hi << 16) | lo;
                let mut buf = [0u8; 8];
                put(&mut buf, 4, 4, Order::Lsb, info);
                let mut o = 0;
                out.transitions += 1;
                match elf::relocation::Rel::parse_at(e, Class::ELF32, &mut o, &buf) {
                    Ok(r) => {
                        if r.r_sym as u64 != info >> 8 || r.r_type as u64 != info & 0xff {
                            out.violate("accessor:ELF32 r_info split", format!("r_info={info:#x}: sym {:#x} type {:#x}", r.r_sym, r.r_type));
                            break;
                        }
                    }
                    Err(_) => {
                        out.violate("decode-fails:Rel", format!("r_info={info:#x}"));
                        break;
                    }
                }
            }
            dig.u64(idx);
        }
        out.nontrivial(dig.get());
    }
}

/// Decoding depends on class and byte order only: for EVERY e_machine and e_type value (65536
/// each), every osabi / abiversion byte and boundary e_flags / e_entry values, the whole-file
/// observation (all records except the file header itself) must equal the baseline's.
struct Independence {
    sk: Vec<crate::skeleton::Skeleton>,
}
const IND_FIELDS: [(&str, u64); 6] = [("ehdr.e_machine", 65536), ("ehdr.e_type", 65536), ("ehdr.ei_osabi", 256), ("ehdr.ei_abiversion", 256), ("ehdr.e_flags", 40), ("ehdr.e_entry", 40)];
impl Independence {
    fn blocks() -> Vec<(usize, u64)> {
        // (field, block of 256 values)
        let mut v = Vec::new();
        for (fi, (_, n)) in IND_FIELDS.iter().enumerate() {
            let mut a = 0;
            while a < *n {
                v.push((fi, a));
                a += 256;
            }
        }
        v
    }
}
impl Space for Independence {
    fn name(&self) -> String {
        "independence of everything but class/order: every e_machine (65536) and e_type (65536) value, every EI_OSABI / EI_ABIVERSION byte, boundary e_flags / e_entry values on the tiny-full skeletons (4 encodings): all API results except the file header itself must equal the baseline's".into()
    }
    fn size(&self) -> u64 {
        (Self::blocks().len() * self.sk.len()) as u64
    }
    fn describe(&self, idx: u64) -> Value {
        let b = Self::blocks();
        let (fi, a) = b[idx as usize % b.len()];
        json!({"skeleton": self.sk[idx as usize / b.len()].name, "field": IND_FIELDS[fi].0, "values_from": a})
    }
    fn run(&self, idx: u64, out: &mut Outcome) {
        use crate::driver::*;
        let b = Self::blocks();
        let (fi, a) = b[idx as usize % b.len()];
        let sk = &self.sk[idx as usize / b.len()];
        let site = sk.sites.iter().find(|s| s.role == IND_FIELDS[fi].0).expect("site").clone();
        let run = |bytes: &[u8]| -> Option<Vec<Rec>> {
            let mut s = RecordSink::new();
            match subject(|| observe::<AnyEndian, _>(bytes, &mut s, &Opts { crafted: false })) {
                // segment 0 (PT_LOAD over [0, 0x700)) contains the file header itself: its bytes change
                // legitimately with the mutated field, every other answer must not
                Ok(true) => Some(s.recs.into_iter().filter(|r| r.key.q != Q_OPEN && !(r.key.q == Q_SEGDATA && r.key.a == 0)).collect()),
                _ => None,
            }
        };
        let base = match run(&sk.bytes) {
            Some(b) => b,
            None => {
                out.violate("independence:baseline does not open", sk.name.clone());
                return;
            }
        };
        let mut dig = Fnv::new();
        let n = IND_FIELDS[fi].1;
        let vals: Vec<u64> = if n >= 256 { (a..(a + 256).min(n)).collect() } else { crate::lattice::v64().into_iter().take(40).collect() };
        for v in vals {
            let mut bytes = sk.bytes.clone();
            put(&mut bytes, site.off, site.width, sk.enc.order, v);
            out.transitions += base.len() as u64;
            match run(&bytes) {
                None => {
                    out.violate(format!("independence:{} makes the file unreadable", IND_FIELDS[fi].0), format!("{} := {v:#x} on {}", IND_FIELDS[fi].0, sk.name));
                    return;
                }
                Some(r) => {
                    if r != base {
                        let first = r.iter().zip(base.iter()).find(|(x, y)| x != y).map(|(x, _)| qname(x.key.q)).unwrap_or("record count");
                        out.violate(format!("independence:results depend on {}", IND_FIELDS[fi].0), format!("{} := {v:#x} on {}: first differing call {}", IND_FIELDS[fi].0, sk.name, first));
                        return;
                    }
                    dig.u64(v);
                }
            }
        }
        out.nontrivial(dig.get() ^ idx);
    }
}

/// Independence under combinations that name a real platform: machine x OS ABI x file type.
pub struct Platforms {
    pub sk: Vec<crate::skeleton::Skeleton>,
}
const OSABIS: [u64; 20] = [0, 1, 2, 3, 6, 7, 8, 9, 10, 11, 12, 13, 14, 15, 16, 17, 18, 64, 97, 255];
impl Space for Platforms {
    fn name(&self) -> String {
        "independence under platform identities: e_machine in the 14 quirk machines x EI_OSABI in every registered value {0,1,2,3,6..18,64,97,255} x e_type in {REL,EXEC,DYN,CORE} set together on the tiny-full skeletons (4 encodings): all API results except the file header itself equal the baseline's".into()
    }
    fn size(&self) -> u64 {
        (crate::skeleton::QUIRK_MACHINES.len() * self.sk.len()) as u64
    }
    fn describe(&self, idx: u64) -> Value {
        let nm = crate::skeleton::QUIRK_MACHINES.len();
        json!({"skeleton": self.sk[idx as usize / nm].name, "e_machine": crate::skeleton::QUIRK_MACHINES[idx as usize % nm].1, "osabi_x_type": "20 x 4 combinations"})
    }
    fn run(&self, idx: u64, out: &mut Outcome) {
        use crate::driver::*;
        let nm = crate::skeleton::QUIRK_MACHINES.len();
        let sk = &self.sk[idx as usize / nm];
        let (machine, mname) = crate::skeleton::QUIRK_MACHINES[idx as usize % nm];
        let site = |r: &str| sk.sites.iter().find(|s| s.role == r).expect("site").clone();
        let (sm, so, st) = (site("ehdr.e_machine"), site("ehdr.ei_osabi"), site("ehdr.e_type"));
        let run = |bytes: &[u8]| -> Option<Vec<Rec>> {
            let mut s = RecordSink::new();
            match subject(|| observe::<AnyEndian, _>(bytes, &mut s, &Opts { crafted: false })) {
                Ok(true) => Some(s.recs.into_iter().filter(|r| r.key.q != Q_OPEN && !(r.key.q == Q_SEGDATA && r.key.a == 0)).collect()),
                _ => None,
            }
        };
        let base = match run(&sk.bytes) {
            Some(b) => b,
            None => {
                out.violate("independence:baseline does not open", sk.name.clone());
                return;
            }
        };
        let mut dig = Fnv::new();
        for osabi in OSABIS {
            for et in [1u64, 2, 3, 4] {
                let mut bytes = sk.bytes.clone();
                put(&mut bytes, sm.off, sm.width, sk.enc.order, machine as u64);
                put(&mut bytes, so.off, so.width, sk.enc.order, osabi);
                put(&mut bytes, st.off, st.width, sk.enc.order, et);
                out.transitions += base.len() as u64;
                match run(&bytes) {
                    None => {
                        out.violate("independence:platform identity makes the file unreadable", format!("{mname} / EI_OSABI {osabi} / e_type {et} on {}", sk.name));
                        return;
                    }
                    Some(r) => {
                        if r != base {
                            let first = r.iter().zip(base.iter()).find(|(x, y)| x != y).map(|(x, _)| qname(x.key.q)).unwrap_or("record count");
                            out.violate("independence:results depend on the platform identity", format!("{mname} / EI_OSABI {osabi} / e_type {et} on {}: first differing call {}", sk.name, first));
                            return;
                        }
                        dig.u64(osabi * 8 + et);
                    }
                }
            }
        }
        out.nontrivial(dig.get() ^ idx);
    }
}

/// The header a GnuHashTable exposes (`.hdr`) carries the on-disk words, whatever their values.
struct HashHeaders;
const HH_SHIFTS: [u32; 16] = [0, 1, 5, 6, 26, 31, 32, 33, 40, 63, 64, 255, 256, 0x8000_0000, 0xffff_ffe0, u32::MAX];
impl Space for HashHeaders {
    fn name(&self) -> String {
        "GnuHashTable::new(..).hdr on reference-built .gnu.hash sections: shift word in {0,1,5,6,26,31,32,33,40,63,64,255,256,2^31,2^32-32,2^32-1} x symoffset {1,3} x nbucket {1,3} x bloom words {1,2} x 4 encodings: the four exposed header fields equal the four on-disk words".into()
    }
    fn size(&self) -> u64 {
        16 * 2 * 2 * 2 * 4
    }
    fn describe(&self, idx: u64) -> Value {
        let d = unmix(idx, &[16, 2, 2, 2, 4]);
        json!({"shift_word": HH_SHIFTS[d[0] as usize], "symoffset": 1 + 2 * d[1], "nbucket": 1 + 2 * d[2], "bloom_words": d[3] + 1, "encoding": ENCS[d[4] as usize].name()})
    }
    fn run(&self, idx: u64, out: &mut Outcome) {
        let d = unmix(idx, &[16, 2, 2, 2, 4]);
        let enc = ENCS[d[4] as usize];
        let shift = HH_SHIFTS[d[0] as usize];
        let so = [1usize, 3][d[1] as usize];
        let nb = [1usize, 3][d[2] as usize];
        let bl = d[3] as usize + 1;
        let mut unhashed: Vec<Vec<u8>> = vec![vec![]];
        for k in 1..so {
            unhashed.push(format!("u{k}").into_bytes());
        }
        let hashed: Vec<Vec<u8>> = vec![b"memset".to_vec(), b"ab".to_vec(), b"bA".to_vec()];
        let mut g = refmodel::hashes::build_gnu(enc, &unhashed, &hashed, nb, bl, 5);
        put(&mut g.section, 12, 4, enc.order, shift as u64);
        let e = if enc.order == Order::Lsb { AnyEndian::Little } else { AnyEndian::Big };
        let c = if enc.class == refmodel::layout::Class::C32 { elf::file::Class::ELF32 } else { elf::file::Class::ELF64 };
        out.transitions += 1;
        match subject(|| elf::hash::GnuHashTable::new(e, c, &g.section).ok().map(|t| (t.hdr.nbucket, t.hdr.table_start_idx, t.hdr.nbloom, t.hdr.nshift))) {
            Err(m) => out.violate(format!("panic:GnuHashTable::new in {}", panic_site(&m)), m),
            Ok(None) => out.count("table_rejected"),
            Ok(Some(got)) => {
                let want = (nb as u32, so as u32, bl as u32, shift);
                if got != want {
                    out.violate("field:GnuHashTable.hdr", format!("{}: on-disk header words (nbucket, symoffset, nbloom, nshift) = {:?}, the table exposes {:?}", enc.name(), want, got));
                }
                out.nontrivial(idx ^ 0x6e75);
            }
        }
    }
}

pub fn build(tier: Tier) -> CheckDef {
    let tiny = crate::skeleton::tiny_skeletons();
    let ind: Vec<crate::skeleton::Skeleton> = if tier == Tier::Quick { vec![tiny[4].clone(), tiny[3].clone()] } else { tiny.into_iter().step_by(2).collect() };
    CheckDef {
        prop: "C02",
        level: "model_checking",
        rule: "complete enumeration of field-value assignments that deviate from a base assignment in <= 2 fields (quick: <= 1 for all kinds, 2 for every kind as well since the spaces are small), each value from the boundary alphabet V(width); the reference encoder (layout tables, explicit shifts) produces the bytes, the real parser decodes them; private next/aux link fields are observed through derive(Debug). non-trivial = case whose decode succeeded; distinct = distinct decoded value vectors".into(),
        assumptions: vec![
            "NoteHeader is private and is covered through C14; vd_version/vn_version and the ident gate bytes stay valid (their rejection paths belong to C10)".into(),
            "2 simultaneous deviations suffice for defects involving <= 2 fields".into(),
        ],
        spaces: vec![Box::new(Structs { pairs: true }), Box::new(Accessors { full_rinfo: tier == Tier::Thorough }), Box::new(Independence { sk: ind }),
            // records behind a non-zero starting offset, and cursors that must advance by exactly one structure
            Box::new(super::c13::Displaced),
            Box::new(super::c09::Sequences { depth: 3 }),
            // note headers: sizes and padding of consecutive records through ElfBytes
            Box::new(super::c14::ThroughFile),
            Box::new(HashHeaders),
            Box::new(Platforms { sk: crate::skeleton::tiny_skeletons().into_iter().filter(|s| s.name.ends_with("linker-order")).collect() }),
        ],
        abort_is_violation: false,
        hang_is_violation: false,
        exhaustive: true,
        bounds: json!({"deviations": 2, "elf32_r_info_full_domain": tier == Tier::Thorough}),
    }
}
