//! C06 — zero heap allocations in the slice parser; builds in every feature set; no_std consumer links.
use super::c01::spaces_for;
use super::slice_oracles::Mode;
use super::standalone::Also;
use crate::framework::*;
use serde_json::{json, Value};
use std::process::Command;

/// Engine T part: all 8 subsets of {alloc,std,to_str} must `cargo check`, and a #![no_std]
/// staticlib consumer without a global allocator must build against default-features = false.
struct FeatureMatrix;
const FEATS: [&str; 3] = ["alloc", "std", "to_str"];
fn scratch_target(tag: &str) -> std::path::PathBuf {
    verif_dir().join("mc").join("target").join("featcheck").join(tag)
}
impl Space for FeatureMatrix {
    fn name(&self) -> String {
        "cargo check --no-default-features --features <S> for all 8 subsets S of {alloc,std,to_str}; build of the #![no_std] allocator-less staticlib probe against elf with no features and with {to_str}".into()
    }
    fn size(&self) -> u64 {
        10
    }
    fn chunk_hint(&self) -> u64 {
        1
    }
    fn hang_secs(&self) -> u64 {
        600
    }
    fn describe(&self, idx: u64) -> Value {
        if idx < 8 {
            let f: Vec<&str> = (0..3).filter(|b| idx >> b & 1 == 1).map(|b| FEATS[b]).collect();
            json!({"cargo_check_features": f})
        } else {
            json!({"build": "nostd_probe (no_std staticlib, own panic handler, no global allocator)", "elf_features": if idx == 8 { "none" } else { "to_str" }})
        }
    }
    fn run(&self, idx: u64, out: &mut Outcome) {
        out.transitions += 1;
        let repo = crate::skeleton::repo_dir();
        if idx < 8 {
            let f: Vec<&str> = (0..3).filter(|b| idx >> b & 1 == 1).map(|b| FEATS[b]).collect();
            let tag = format!("f{idx}");
            let o = Command::new("cargo")
                .args(["check", "--offline", "--quiet", "--no-default-features", "--features", &f.join(","), "--manifest-path"])
                .arg(format!("{repo}/Cargo.toml"))
                .env("CARGO_TARGET_DIR", scratch_target(&tag))
                .env("CARGO_NET_OFFLINE", "true")
                .output();
            match o {
                Err(e) => panic!("cannot run cargo: {e}"),
                Ok(o) => {
                    if !o.status.success() {
                        let err = String::from_utf8_lossy(&o.stderr);
                        out.violate(
                            format!("feature-set-does-not-build:[{}]", f.join(",")),
                            err.lines().filter(|l| l.starts_with("error")).take(6).collect::<Vec<_>>().join(" | "),
                        );
                    }
                }
            }
            out.nontrivial(idx + 1);
            out.count("feature_subset");
        } else {
            let probe = verif_dir().join("nostd_probe");
            let o = Command::new("cargo")
                .args(["build", "--offline", "--quiet", "--release", "--manifest-path"])
                .arg(probe.join("Cargo.toml"))
                .args(if idx == 9 { vec!["--features", "to_str"] } else { vec![] })
                .env("CARGO_TARGET_DIR", scratch_target(if idx == 9 { "probe_to_str" } else { "probe" }))
                .env("CARGO_NET_OFFLINE", "true")
                .output();
            match o {
                Err(e) => panic!("cannot run cargo: {e}"),
                Ok(o) => {
                    if !o.status.success() {
                        let err = String::from_utf8_lossy(&o.stderr);
                        out.violate(
                            if idx == 9 { "no_std-consumer-does-not-link(elf feature to_str)" } else { "no_std-consumer-does-not-link" },
                            err.lines().filter(|l| l.starts_with("error")).take(6).collect::<Vec<_>>().join(" | "),
                        );
                    }
                }
            }
            out.nontrivial(99);
            out.count("nostd_probe");
        }
    }
}

pub fn build(tier: Tier) -> CheckDef {
    let (mut spaces, bounds) = spaces_for(tier, Mode::ZeroAlloc, Also::ZeroAlloc, "C06 zero alloc");
    // long chains, large tables and link structures under the same zero-allocation demand
    super::c16_graphs::ZERO_ALLOC_MODE.store(true, std::sync::atomic::Ordering::Relaxed);
    spaces.extend(super::c16_graphs::spaces(tier));
    spaces.push(Box::new(FeatureMatrix));
    CheckDef {
        prop: "C06",
        level: "model_checking",
        rule: "the complete C01 enumeration re-run with a counting global allocator armed around crate code only (allocation-free hashing sink): every case must make 0 allocation calls; plus the complete configuration matrix (8/8 feature subsets, no_std allocator-less consumer). non-trivial = input that opens".into(),
        assumptions: vec![
            "allocations are observed through the Rust global allocator of the harness binary".into(),
            "a duplicate panic_impl lang item / missing global allocator at link time is how a std/alloc dependency shows in the probe".into(),
        ],
        spaces,
        abort_is_violation: false,
        hang_is_violation: false,
        exhaustive: true,
        bounds: json!({"lattice": bounds, "feature_subsets": 8}),
    }
}
