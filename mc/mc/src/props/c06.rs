//! C06 — zero heap allocations in the slice parser; builds in every feature set; no_std consumer links.
use super::c01::spaces_for;
use super::slice_oracles::Mode;
use super::standalone::Also;
use crate::framework::*;
use serde_json::{json, Value};
use std::process::Command;

/// Engine T part: all 8 subsets of {alloc,std,to_str} must `cargo check`, and a #![no_std]
/// staticlib consumer without a global allocator must build against default-features = false.
struct FeatureMatrix;
const FEATS: [&str; 3] = ["alloc", "std", "to_str"];
fn scratch_target(tag: &str) -> std::path::PathBuf {
    verif_dir().join("mc").join("target").join("featcheck").join(tag)
}
impl Space for FeatureMatrix {
    fn name(&self) -> String {
        "cargo check --no-default-features --features <S> for all 8 subsets S of {alloc,std,to_str}; build of the #![no_std] allocator-less staticlib probe against elf with no features and with {to_str}".into()
    }
    fn size(&self) -> u64 {
        10
    }
    fn chunk_hint(&self) -> u64 {
        1
    }
    fn hang_secs(&self) -> u64 {
        600
    }
    fn describe(&self, idx: u64) -> Value {
        if idx < 8 {
            let f: Vec<&str> = (0..3).filter(|b| idx >> b & 1 == 1).map(|b| FEATS[b]).collect();
            json!({"cargo_check_features": f})
        } else {
            json!({"build": "nostd_probe (no_std staticlib, own panic handler, no global allocator)", "elf_features": if idx == 8 { "none" } else { "to_str" }})
        }
    }
    fn run(&self, idx: u64, out: &mut Outcome) {
        out.transitions += 1;
        let repo = crate::skeleton::repo_dir();
        if idx < 8 {
            let f: Vec<&str> = (0..3).filter(|b| idx >> b & 1 == 1).map(|b| FEATS[b]).collect();
            let tag = format!("f{idx}");
            let o = Command::new("cargo")
                .args(["check", "--offline", "--quiet", "--no-default-features", "--features", &f.join(","), "--manifest-path"])
                .arg(format!("{repo}/Cargo.toml"))
                .env("CARGO_TARGET_DIR", scratch_target(&tag))
                .env("CARGO_NET_OFFLINE", "true")
                .output();
            match o {
                Err(e) => panic!("cannot run cargo: {e}"),
                Ok(o) => {
                    if !o.status.success() {
                        let err = String::from_utf8_lossy(&o.stderr);
                        out.violate(
                            format!("feature-set-does-not-build:[{}]", f.join(",")),
                            err.lines().filter(|l| l.starts_with("error")).take(6).collect::<Vec<_>>().join(" | "),
                        );
                    }
                }
            }
            out.nontrivial(idx + 1);
            out.count("feature_subset");
        } else {
            let probe = verif_dir().join("nostd_probe");
            let o = Command::new("cargo")
                .args(["build", "--offline", "--quiet", "--release", "--manifest-path"])
                .arg(probe.join("Cargo.toml"))
                .args(if idx == 9 { vec!["--features", "to_str"] } else { vec![] })
                .env("CARGO_TARGET_DIR", scratch_target(if idx == 9 { "probe_to_str" } else { "probe" }))
                .env("CARGO_NET_OFFLINE", "true")
                .output();
            match o {
                Err(e) => panic!("cannot run cargo: {e}"),
                Ok(o) => {
                    if !o.status.success() {
                        let err = String::from_utf8_lossy(&o.stderr);
                        out.violate(
                            if idx == 9 { "no_std-consumer-does-not-link(elf feature to_str)" } else { "no_std-consumer-does-not-link" },
                            err.lines().filter(|l| l.starts_with("error")).take(6).collect::<Vec<_>>().join(" | "),
                        );
                    }
                }
            }
            out.nontrivial(99);
            out.count("nostd_probe");
        }
    }
}

/// Long sessions on ONE object of each stateful-looking kind: a lookup structure must not start
/// allocating (building an index, memoising) after some number of queries.
struct Sessions {
    rounds: usize,
}
impl Space for Sessions {
    fn name(&self) -> String {
        format!("long sessions on one object: {} rounds of every-symbol requirement+definition queries on one SymbolVersionTable (8 needed files x 8 aux, 4 definitions, 512 symbols), of every-name finds on one SysV and one GNU hash table (200 symbols), of every-offset gets on one StringTable, of get/iter on one ParsingTable, and of every accessor on one ElfBytes (tiny-full and wide objects); Debug formatting of every value the API hands out, written into a stack buffer (also with string tables that are not UTF-8); 4 encodings; 0 allocation calls over the whole session and the last round answers like the first", self.rounds)
    }
    fn size(&self) -> u64 {
        4 * 6
    }
    fn hang_secs(&self) -> u64 {
        300
    }
    fn describe(&self, idx: u64) -> Value {
        let obj = ["SymbolVersionTable", "SysV+GNU hash tables", "StringTable+ParsingTable", "ElfBytes(tiny-full)", "ElfBytes(wide)", "Debug formatting of every public value"][(idx / 4) as usize];
        json!({"encoding": refmodel::layout::ENCS[(idx % 4) as usize].name(), "object": obj, "rounds": self.rounds})
    }
    fn run(&self, idx: u64, out: &mut Outcome) {
        use crate::alloc::{reset_stats, stats, subject};
        use crate::util::Fnv;
        use elf::endian::AnyEndian;
        use refmodel::hashes::*;
        use refmodel::layout::*;
        use refmodel::symver::*;
        let enc = ENCS[(idx % 4) as usize];
        let e = if enc.order == Order::Lsb { AnyEndian::Little } else { AnyEndian::Big };
        let c = if enc.class == Class::C32 { elf::file::Class::ELF32 } else { elf::file::Class::ELF64 };
        let rounds = self.rounds;
        let what = (idx / 4) as usize;
        reset_stats();
        // each arm returns (digest of the first round, digest of the last round, crate calls)
        let r: Result<(u64, u64, u64), String> = match what {
            0 => {
                let mut needs = Vec::new();
                let mut next = 2u16;
                for f in 0..8 {
                    let mut auxes = Vec::new();
                    for j in 0..8 {
                        auxes.push(Aux { name: format!("V_{f}.{j}").into_bytes(), hash: 0x1000 + (f * 8 + j) as u32, flags: 0, other: next });
                        next += 1;
                    }
                    needs.push(Need { file: format!("lib{f}.so").into_bytes(), auxes });
                }
                let defs: Vec<Def> = (0..4).map(|d| Def { ndx: next + d, flags: 0, hash: 0x2000 + d as u32, names: vec![format!("D{d}").into_bytes(), format!("D{d}.parent").into_bytes()] }).collect();
                let versym: Vec<u16> = (0..512u32).map(|i| (i % (next as u32 + 6)) as u16 | if i % 5 == 0 { 0x8000 } else { 0 }).collect();
                let mut strs = StrTab::new();
                let vn = build_verneed(enc, &needs, VerLayout::Contiguous, &mut strs);
                let vd = build_verdef(enc, &defs, VerLayout::Contiguous, &mut strs);
                let vs = build_versym(enc.order, &versym);
                subject(|| {
                    use elf::gnu_symver::*;
                    let st = elf::string_table::StringTable::new(&strs.bytes);
                    let t = SymbolVersionTable::new(
                        VersionIndexTable::new(e, c, &vs),
                        Some((VerNeedIterator::new(e, c, needs.len() as u64, 0, &vn), st)),
                        Some((VerDefIterator::new(e, c, defs.len() as u64, 0, &vd), st)),
                    );
                    let (mut first, mut last, mut calls) = (0u64, 0u64, 0u64);
                    for r in 0..rounds {
                        let mut f = Fnv::new();
                        for i in 0..514usize {
                            calls += 2;
                            if let Ok(Some(q)) = t.get_requirement(i) {
                                f.u64(q.hash as u64);
                                f.bytes(q.name.as_bytes());
                            }
                            if let Ok(Some(d)) = t.get_definition(i) {
                                f.u64(d.hash as u64);
                                for n in d.names.flatten() {
                                    f.bytes(n.as_bytes());
                                }
                            }
                            // the names through the other ways of consuming an iterator
                            for how in 0..4 {
                                if let Ok(Some(d)) = t.get_definition(i) {
                                    let mut names = d.names;
                                    let x = match how {
                                        0 => names.last().and_then(|r| r.ok()).map(|s| s.len()),
                                        1 => Some(names.count()),
                                        2 => names.nth(1).and_then(|r| r.ok()).map(|s| s.len()),
                                        _ => Some(names.size_hint().0),
                                    };
                                    f.u64(x.unwrap_or(99) as u64);
                                    calls += 1;
                                }
                            }
                        }
                        if r == 0 {
                            first = f.get();
                        }
                        last = f.get();
                    }
                    (first, last, calls)
                })
            }
            1 => {
                let mut names: Vec<Vec<u8>> = vec![vec![]];
                names.extend((0..200).map(|i| format!("sym_{i}_{}", i * 7919 % 13).into_bytes()));
                let (strtab, offs) = build_strtab(&names);
                let symtab = build_symtab(enc, &offs);
                let sysv = build_sysv(enc.order, &names, 17);
                let g = build_gnu(enc, &names[..1], &names[1..], 16, 2, 6);
                let (gstr, goffs) = build_strtab(&g.sym_names);
                let gsym = build_symtab(enc, &goffs);
                subject(|| {
                    let st = elf::string_table::StringTable::new(&strtab);
                    let sy = elf::symbol::SymbolTable::new(e, c, &symtab);
                    let gst = elf::string_table::StringTable::new(&gstr);
                    let gsy = elf::symbol::SymbolTable::new(e, c, &gsym);
                    let h = elf::hash::SysVHashTable::new(e, c, &sysv).ok();
                    let gh = elf::hash::GnuHashTable::new(e, c, &g.section).ok();
                    let (mut first, mut last, mut calls) = (0u64, 0u64, 0u64);
                    for r in 0..rounds {
                        let mut f = Fnv::new();
                        for n in names.iter().skip(1).map(|n| n.as_slice()).chain([b"absent".as_slice(), b"".as_slice()]) {
                            calls += 2;
                            if let Some(h) = &h {
                                if let Ok(Some((i, _))) = h.find(n, &sy, &st) {
                                    f.u64(i as u64);
                                }
                            }
                            if let Some(gh) = &gh {
                                if let Ok(Some((i, _))) = gh.find(n, &gsy, &gst) {
                                    f.u64(i as u64 ^ 0x5555);
                                }
                            }
                        }
                        if r == 0 {
                            first = f.get();
                        }
                        last = f.get();
                    }
                    (first, last, calls)
                })
            }
            2 => {
                let tab: Vec<u8> = (0..3000usize).map(|i| if i % 11 == 0 { 0 } else { b'a' + (i % 26) as u8 }).collect();
                let ent = layout(Kind::Sym, enc.class).size;
                let data: Vec<u8> = (0..ent * 100 + 3).map(|i| (i * 31 % 251) as u8).collect();
                subject(|| {
                    let st = elf::string_table::StringTable::new(&tab);
                    let t = elf::symbol::SymbolTable::new(e, c, &data);
                    let (mut first, mut last, mut calls) = (0u64, 0u64, 0u64);
                    for r in 0..rounds {
                        let mut f = Fnv::new();
                        for off in 0..tab.len() + 2 {
                            calls += 1;
                            if let Ok(s) = st.get_raw(off) {
                                f.u64(s.len() as u64);
                            }
                        }
                        for i in 0..t.len() + 2 {
                            calls += 1;
                            if let Ok(y) = t.get(i) {
                                f.u64(y.st_value);
                            }
                        }
                        for y in t.iter() {
                            f.u64(y.st_size);
                        }
                        if r == 0 {
                            first = f.get();
                        }
                        last = f.get();
                    }
                    (first, last, calls)
                })
            }
            5 => {
                // {:?} of every value the API hands out, written into a fixed stack buffer; the string
                // tables of the second variant carry bytes that are not UTF-8
                struct Stack {
                    n: usize,
                    h: u64,
                }
                impl core::fmt::Write for Stack {
                    fn write_str(&mut self, s: &str) -> core::fmt::Result {
                        self.n += s.len();
                        for b in s.bytes() {
                            self.h = (self.h ^ b as u64).wrapping_mul(0x100000001b3);
                        }
                        Ok(())
                    }
                }
                let mut variants = vec![crate::skeleton::tiny_full(enc, refmodel::image::TableOrder::Linker).0.bytes];
                let mut v2 = variants[0].clone();
                for i in 0..v2.len() {
                    if v2[i] == b'm' || v2[i] == b'G' {
                        v2[i] = 0xfe;
                    }
                }
                variants.push(v2);
                subject(|| {
                    use core::fmt::Write;
                    let mut w = Stack { n: 0, h: 0xcbf29ce484222325 };
                    let mut calls = 0u64;
                    for bytes in &variants {
                        if let Ok(f) = elf::ElfBytes::<AnyEndian>::minimal_parse(bytes) {
                            let _ = write!(w, "{:?}", f);
                            let _ = write!(w, "{:?}{:?}", f.section_headers(), f.segments());
                            let _ = write!(w, "{:?}", f.section_headers_with_strtab());
                            let _ = write!(w, "{:?}{:?}", f.symbol_table(), f.dynamic_symbol_table());
                            let _ = write!(w, "{:?}{:?}", f.dynamic(), f.find_common_data());
                            let _ = write!(w, "{:?}", f.symbol_version_table());
                            calls += 8;
                            if let Ok(Some(t)) = f.symbol_version_table() {
                                for i in 0..6 {
                                    let _ = write!(w, "{:?}", t.get_requirement(i));
                                    if let Ok(Some(d)) = t.get_definition(i) {
                                        let _ = write!(w, "{:?}", d);
                                        let _ = write!(w, "{:?}", d.names);
                                    }
                                    calls += 2;
                                }
                            }
                            if let Some(sh) = f.section_headers() {
                                for h in sh.iter() {
                                    let _ = write!(w, "{:?}", f.section_data(&h));
                                    let _ = write!(w, "{:?}", f.section_data_as_strtab(&h));
                                    let _ = write!(w, "{:?}", f.section_data_as_notes(&h).map(|mut it| { let first = it.next(); (first, it) }));
                                    let _ = write!(w, "{:?}", f.section_data_as_rels(&h));
                                    let _ = write!(w, "{:?}", f.section_data_as_relas(&h));
                                    calls += 5;
                                }
                                let _ = write!(w, "{:?}", sh.iter());
                            }
                            if let Ok(c) = f.find_common_data() {
                                let _ = write!(w, "{:?}{:?}", c.sysv_hash, c.gnu_hash);
                            }
                        }
                    }
                    (w.h, w.h, calls + (w.n as u64 & 0))
                })
            }
            _ => {
                let bytes = if what == 3 { crate::skeleton::tiny_full(enc, refmodel::image::TableOrder::Linker).0.bytes } else { crate::skeleton::wide_shapes()[(idx % 4) as usize * 2].bytes.clone() };
                let reps = (rounds / 8).max(4);
                subject(|| {
                    use crate::driver::*;
                    let (mut first, mut last, mut calls) = (0u64, 0u64, 0u64);
                    // the driver opens the file once per observation: here ONE ElfBytes object serves all rounds
                    if let Ok(f) = elf::ElfBytes::<AnyEndian>::minimal_parse(&bytes) {
                        for r in 0..reps {
                            let mut sink = HashSink::new();
                            observe_open(&f, &bytes, &mut sink, &Opts { crafted: false });
                            calls += sink.calls;
                            if r == 0 {
                                first = sink.h.get();
                            }
                            last = sink.h.get();
                        }
                    }
                    (first, last, calls)
                })
            }
        };
        let st = stats();
        match r {
            Err(m) => out.violate(format!("panic:session in {}", super::slice_oracles::panic_site(&m)), m),
            Ok((first, last, calls)) => {
                out.transitions += calls;
                if st.calls > 0 {
                    out.violate(
                        format!("alloc:long session on one {}", ["SymbolVersionTable", "hash table", "StringTable/ParsingTable", "ElfBytes", "ElfBytes", "Debug-formatted value"][what]),
                        format!("{} heap allocation call(s), largest {} bytes, during {} rounds of queries on one object ({})", st.calls, st.max_req, rounds, enc.name()),
                    );
                }
                if first != last {
                    out.violate("session:answers drift", format!("round {} answers differently from round 1 ({})", rounds, enc.name()));
                }
                out.alloc_calls += st.calls;
                out.nontrivial(first ^ idx);
            }
        }
    }
}

/// Files with more than 0xff00 sections / 0xffff segments (extended numbering, right and wrong
/// encodings of it) under the allocation counter.
struct HugeCounts;
impl Space for HugeCounts {
    fn name(&self) -> String {
        "files with 0xff20 sections and 0x10010 program headers x 7 header encodings (reference, escapes forced, shdr[0] zeroed / off by one / stale link) x 2 encodings: the whole slice API, 0 allocation calls".into()
    }
    fn size(&self) -> u64 {
        7 * 2
    }
    fn chunk_hint(&self) -> u64 {
        1
    }
    fn hang_secs(&self) -> u64 {
        300
    }
    fn describe(&self, idx: u64) -> Value {
        json!({"encoding": refmodel::layout::ENCS[if idx % 2 == 0 { 2 } else { 1 }].name(), "header_encoding_variant": idx / 2})
    }
    fn run(&self, idx: u64, out: &mut Outcome) {
        use super::c05::*;
        use refmodel::layout::*;
        let enc = ENCS[if idx % 2 == 0 { 2 } else { 1 }];
        let (nsec, nph, strndx) = (0xff20u64, 0x10010u64, 0xff1fu64);
        let mut e = reference_encoding(nsec, nph, strndx);
        match idx / 2 {
            0 => {}
            1 => e.sh0_link = 0,
            2 => e.sh0_link = 1,
            3 => {
                e.sh0_size = 0;
                e.sh0_info = 0;
                e.sh0_link = 0;
            }
            4 => e.sh0_size = nsec - 1,
            5 => e.sh0_info = nph + 1,
            _ => e.e_shstrndx = 0xff1f,
        }
        let shs = layout(Kind::Shdr, enc.class).size as u64;
        let phs = layout(Kind::Phdr, enc.class).size as u64;
        let mut img = make(enc, nsec, nph, strndx, Placement::PhThenSh, &e, shs, phs);
        // the last sections are string tables (candidates for a "recovered" name table)
        for i in [nsec - 1, nsec - 2, nsec - 3] {
            let off = (img.shoff + i * shs) as usize + 4;
            put(&mut img.bytes, off, 4, enc.order, 3);
        }
        super::slice_oracles::slice_check(Mode::ZeroAlloc, enc.order, &img.bytes, out);
    }
}

pub fn build(tier: Tier) -> CheckDef {
    let (mut spaces, bounds) = spaces_for(tier, Mode::ZeroAlloc, Also::ZeroAlloc, "C06 zero alloc");
    // long chains, large tables and link structures under the same zero-allocation demand
    super::c16_graphs::ZERO_ALLOC_MODE.store(true, std::sync::atomic::Ordering::Relaxed);
    spaces.extend(super::c16_graphs::spaces(tier));
    spaces.push(Box::new(Sessions { rounds: tier.pick(64, 512) }));
    spaces.push(Box::new(HugeCounts));
    spaces.push(Box::new(FeatureMatrix));
    CheckDef {
        prop: "C06",
        level: "model_checking",
        rule: "the complete C01 enumeration re-run with a counting global allocator armed around crate code only (allocation-free hashing sink): every case must make 0 allocation calls; plus the complete configuration matrix (8/8 feature subsets, no_std allocator-less consumer). non-trivial = input that opens".into(),
        assumptions: vec![
            "allocations are observed through the Rust global allocator of the harness binary".into(),
            "a duplicate panic_impl lang item / missing global allocator at link time is how a std/alloc dependency shows in the probe".into(),
        ],
        spaces,
        abort_is_violation: false,
        hang_is_violation: false,
        exhaustive: true,
        bounds: json!({"lattice": bounds, "feature_subsets": 8}),
    }
}
