//! Oracles that run the observation driver on one input (used by C01, C06, C10, C16, C18).
use super::common::*;
use crate::alloc::{self, subject};
use crate::driver::*;
use crate::framework::*;
use crate::lattice::{Oracle, PrefixOracle};
use crate::skeleton::Skeleton;
use refmodel::layout::Order;
use std::collections::HashMap;

pub fn panic_site(msg: &str) -> String {
    // "panicked at src/note.rs:80:23:\nattempt to add with overflow" -> "src/note.rs"
    if let Some(p) = msg.find("panicked at ") {
        let rest = &msg[p + 12..];
        let end = rest.find(':').unwrap_or(rest.len());
        let path = &rest[..end];
        let short = match path.rfind("src/") {
            Some(q) => &path[q..],
            None => path,
        };
        return short.to_string();
    }
    "?".to_string()
}

#[derive(Clone, Copy, PartialEq, Eq)]
pub enum Mode {
    /// C01: no panic (the worker isolates aborts, stack overflows, hangs)
    Total,
    /// C06: additionally zero heap allocations
    ZeroAlloc,
    /// C16: additionally bounded item counts
    Bounded,
}

pub struct SliceOracle {
    pub mode: Mode,
}

fn run_any(bytes: &[u8], sink: &mut HashSink, crafted: bool) -> Result<bool, String> {
    subject(|| observe::<AnyEndian, _>(bytes, sink, &Opts { crafted }))
}

impl Oracle for SliceOracle {
    fn check(&self, sk: &Skeleton, bytes: &[u8], out: &mut Outcome) {
        slice_check(self.mode, sk.enc.order, bytes, out);
    }
}

pub fn slice_check(mode: Mode, order: Order, bytes: &[u8], out: &mut Outcome) {
    // spec 0: AnyEndian; spec 1: the fixed spec of the skeleton's order; spec 2: the other fixed spec
    for spec in 0..3 {
        let mut sink = HashSink::new();
        alloc::reset_stats();
        let r = match (spec, order) {
            (0, _) => run_any(bytes, &mut sink, true),
            (1, Order::Lsb) | (2, Order::Msb) => subject(|| observe::<LittleEndian, _>(bytes, &mut sink, &Opts { crafted: spec == 1 })),
            _ => subject(|| observe::<BigEndian, _>(bytes, &mut sink, &Opts { crafted: spec == 1 })),
        };
        let st = alloc::stats();
        out.transitions += sink.calls;
        match r {
            Err(msg) => {
                let q = qname(sink.last_key().q);
                out.violate(
                    format!("panic:{} in {}", q, panic_site(&msg)),
                    format!("spec #{spec}; last API call {:?}; {}", sink.last_key(), msg),
                );
                out.count("panicked");
            }
            Ok(opened) => {
                if spec == 0 {
                    out.count(if opened { "opened" } else { "open_failed" });
                    if opened {
                        out.nontrivial(sink.h.get());
                    }
                }
                if mode == Mode::ZeroAlloc && st.calls > 0 {
                    let k = sink.alloc_key.unwrap_or(sink.last_key());
                    out.violate(
                        format!("alloc:{}", qname(k.q)),
                        format!("{} heap allocation call(s), largest {} bytes, while running the slice-parser API (spec #{spec})", st.calls, st.max_req),
                    );
                }
                if mode == Mode::Bounded && sink.runaways > 0 {
                    let k = sink.runaway_key;
                    out.violate(
                        format!("runaway:{}", qname(k.q)),
                        format!("iterator under {:?} yielded more than len+2 = {} items", k, bytes.len() + 2),
                    );
                }
            }
        }
        out.alloc_calls += st.calls;
        out.max_alloc = out.max_alloc.max(st.max_req);
    }
}

/// C10 (second clause): AnyEndian produces results identical to the matching fixed spec.
#[derive(Clone)]
pub struct AnyVsFixed;
impl Oracle for AnyVsFixed {
    fn check(&self, sk: &Skeleton, bytes: &[u8], out: &mut Outcome) {
        any_vs_fixed(sk.enc.order, bytes, out);
    }
}
pub fn any_vs_fixed(order: Order, bytes: &[u8], out: &mut Outcome) {
    // the matching fixed spec is decided by the byte the file carries, not by the skeleton
    let data = bytes.get(5).copied().unwrap_or(0);
    let order = match data {
        1 => Order::Lsb,
        2 => Order::Msb,
        _ => order,
    };
    let mut a = RecordSink::new();
    let mut f = RecordSink::new();
    let ra = subject(|| observe::<AnyEndian, _>(bytes, &mut a, &Opts { crafted: true }));
    let rf = match order {
        Order::Lsb => subject(|| observe::<LittleEndian, _>(bytes, &mut f, &Opts { crafted: true })),
        Order::Msb => subject(|| observe::<BigEndian, _>(bytes, &mut f, &Opts { crafted: true })),
    };
    out.transitions += (a.recs.len() + f.recs.len()) as u64;
    if ra.is_err() || rf.is_err() {
        out.count("panicked (reported by C01)");
        return;
    }
    if a.oks() > 1 {
        out.nontrivial(a.digest());
        out.count("opened");
    } else {
        out.count("open_failed_both_or_any");
    }
    if a.recs.len() != f.recs.len() {
        out.violate(
            "any-vs-fixed:different call sequence",
            format!("AnyEndian made {} API calls, the fixed spec {}", a.recs.len(), f.recs.len()),
        );
        return;
    }
    for (x, y) in a.recs.iter().zip(f.recs.iter()) {
        if x.key != y.key || x.ok != y.ok || (x.ok && x.digest != y.digest) {
            out.violate(
                format!("any-vs-fixed:{}", qname(x.key.q)),
                format!("AnyEndian {:?} vs fixed {:?}", x, y),
            );
            return;
        }
    }
}

/// C18: every query on the cut file is an error or equals the answer on the whole file.
pub struct PrefixCompare {
    /// for suffix cases of generated well-formed images: answers identical including errors
    pub strict_suffix: bool,
    /// records of the complete skeleton (computed once per space)
    pub cache: std::sync::OnceLock<Option<Vec<Rec>>>,
}
impl PrefixCompare {
    pub fn new(strict_suffix: bool) -> PrefixCompare {
        PrefixCompare { strict_suffix, cache: std::sync::OnceLock::new() }
    }
}
impl PrefixOracle for PrefixCompare {
    fn check(&self, sk: &Skeleton, whole: &[u8], cut: &[u8], out: &mut Outcome) {
        let mut w = RecordSink::new();
        let mut c = RecordSink::new();
        let rw: Result<bool, String> = if whole.len() == sk.bytes.len() {
            // the whole file is the skeleton itself: observe it once per space
            let cached = self.cache.get_or_init(|| {
                let mut w0 = RecordSink::new();
                match subject(|| observe::<AnyEndian, _>(whole, &mut w0, &Opts { crafted: false })) {
                    Ok(_) => Some(w0.recs),
                    Err(_) => None,
                }
            });
            match cached {
                Some(r) => {
                    w.recs = r.clone();
                    Ok(true)
                }
                None => Err("whole file panicked".into()),
            }
        } else {
            subject(|| observe::<AnyEndian, _>(whole, &mut w, &Opts { crafted: false }))
        };
        let rc = subject(|| observe::<AnyEndian, _>(cut, &mut c, &Opts { crafted: false }));
        out.transitions += c.recs.len() as u64;
        if let Err(m) = &rc {
            out.violate(format!("panic:{} in {}", qname(c.last_key().q), panic_site(m)), m.clone());
            return;
        }
        if rw.is_err() {
            out.count("whole_panicked (reported by C01)");
            return;
        }
        let map: HashMap<Key, &Rec> = w.recs.iter().map(|r| (r.key, r)).collect();
        let mut ok_in_cut = 0;
        for r in &c.recs {
            if !r.ok {
                continue;
            }
            ok_in_cut += 1;
            match map.get(&r.key) {
                None => {}
                Some(wr) => {
                    if !wr.ok {
                        out.violate(
                            format!("cut-answers-where-whole-errors:{}", qname(r.key.q)),
                            format!("{:?}: Ok on the {}-byte cut but Err on the {}-byte file", r.key, cut.len(), whole.len()),
                        );
                        return;
                    }
                    if wr.digest != r.digest {
                        out.violate(
                            format!("different-answer:{}", qname(r.key.q)),
                            format!("{:?}: the {}-byte cut answers differently from the {}-byte file", r.key, cut.len(), whole.len()),
                        );
                        return;
                    }
                }
            }
        }
        let suffix_case = whole.len() > sk.bytes.len();
        if suffix_case && self.strict_suffix {
            // whole = extension, cut = original: nothing may change, errors included
            let cmap: HashMap<Key, &Rec> = c.recs.iter().map(|r| (r.key, r)).collect();
            for r in &w.recs {
                if let Some(cr) = cmap.get(&r.key) {
                    if cr.ok != r.ok {
                        out.violate(
                            format!("suffix-changes-answer:{}", qname(r.key.q)),
                            format!("{:?}: {} before, {} after appending {} byte(s)", r.key, cr.ok, r.ok, whole.len() - cut.len()),
                        );
                        return;
                    }
                }
            }
        }
        if ok_in_cut > 1 {
            out.nontrivial(c.digest());
            out.count("cut_opens");
        } else {
            out.count("cut_does_not_open");
        }
    }
}
