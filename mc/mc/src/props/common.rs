//! Helpers shared by property modules.
pub use elf::endian::{AnyEndian, BigEndian, EndianParse, LittleEndian, NativeEndian};
pub use elf::file::Class;
pub use refmodel::layout::{Enc, Order, ENCS};

pub const NSPEC: usize = 5;
pub const SPEC_NAMES: [&str; NSPEC] =
    ["LittleEndian", "BigEndian", "AnyEndian::Little", "AnyEndian::Big", "NativeEndian"];

pub fn native_order() -> Order {
    if cfg!(target_endian = "little") {
        Order::Lsb
    } else {
        Order::Msb
    }
}

/// Instantiate `$body` once per byte-order specification value.
/// `$e` = the spec value, `$order` = the byte order it must decode.
#[macro_export]
macro_rules! with_spec {
    ($idx:expr, |$e:ident, $order:ident| $body:block) => {
        match $idx {
            0 => {
                let $e = elf::endian::LittleEndian;
                let $order = refmodel::layout::Order::Lsb;
                $body
            }
            1 => {
                let $e = elf::endian::BigEndian;
                let $order = refmodel::layout::Order::Msb;
                $body
            }
            2 => {
                let $e = elf::endian::AnyEndian::Little;
                let $order = refmodel::layout::Order::Lsb;
                $body
            }
            3 => {
                let $e = elf::endian::AnyEndian::Big;
                let $order = refmodel::layout::Order::Msb;
                $body
            }
            _ => {
                let $e = elf::endian::NativeEndian;
                let $order = $crate::props::common::native_order();
                $body
            }
        }
    };
}

pub fn class_of(enc: Enc) -> Class {
    match enc.class {
        refmodel::layout::Class::C32 => Class::ELF32,
        refmodel::layout::Class::C64 => Class::ELF64,
    }
}

/// spec index (into SPEC_NAMES) of AnyEndian for the given order
pub fn any_spec(order: Order) -> usize {
    match order {
        Order::Lsb => 2,
        Order::Msb => 3,
    }
}
pub fn fixed_spec(order: Order) -> usize {
    match order {
        Order::Lsb => 0,
        Order::Msb => 1,
    }
}
