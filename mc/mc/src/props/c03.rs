//! C03 — returned data is the exact header-designated byte range of the input.
use super::common::*;
use super::slice_oracles::panic_site;
use crate::alloc::subject;
use crate::framework::*;
use crate::skeleton::*;
use crate::util::*;
use elf::abi;
use elf::note::Note;
use elf::section::SectionHeader;
use elf::segment::ProgramHeader;
use elf::ElfBytes;
use refmodel::image::TableOrder;
use refmodel::layout::{self as rl, layout, Kind, ENCS};
use refmodel::notes::walk_notes;
use serde_json::{json, Value};

fn offsets(l: u64) -> [u64; 15] {
    // l - 12 / l - 24: a range that ends at EOF and holds exactly one compression header
    [0, 1, 63, 64, l - 2, l - 1, l, l + 1, (1 << 32) - 1, 1 << 63, u64::MAX, l / 2, l - 12, l - 24, l - 25]
}
fn sizes(l: u64, off: u64) -> [u64; 12] {
    [0, 1, 2, l.wrapping_sub(off).wrapping_sub(1), l.wrapping_sub(off), l.wrapping_sub(off).wrapping_add(1), (1 << 32) - 1, u64::MAX.wrapping_sub(off), u64::MAX.wrapping_sub(off).wrapping_add(1), 24, 12, 25]
}
/// variants of the file the caller-supplied headers are used on: (e_type, section header table announced)
const BASES: [(u16, bool, &str); 4] = [(3, true, "ET_DYN"), (4, true, "ET_CORE"), (4, false, "ET_CORE without section headers"), (1, false, "ET_REL without section headers")];
const P_TYPES: [u32; 4] = [abi::PT_LOAD, abi::PT_NOTE, abi::PT_DYNAMIC, abi::PT_NULL];
const SH_TYPES: [u32; 7] = [abi::SHT_PROGBITS, abi::SHT_NOBITS, abi::SHT_STRTAB, abi::SHT_REL, abi::SHT_RELA, abi::SHT_NOTE, abi::SHT_DYNAMIC];
const SH_FLAGS: [u64; 4] = [0, abi::SHF_COMPRESSED as u64, (abi::SHF_COMPRESSED | abi::SHF_ALLOC) as u64, abi::SHF_ALLOC as u64];

/// reference: the designated range of a section, or None when it does not fit (then an error is due)
fn designated_section(enc: rl::Enc, flen: usize, h: &SectionHeader) -> Option<(usize, usize)> {
    if h.sh_type == abi::SHT_NOBITS {
        return Some((0, 0)); // empty, whatever the range
    }
    let end = (h.sh_offset as u128) + (h.sh_size as u128);
    if end > flen as u128 {
        return None;
    }
    let (mut a, b) = (h.sh_offset as usize, end as usize);
    if h.sh_flags & abi::SHF_COMPRESSED as u64 != 0 {
        let c = layout(Kind::Chdr, enc.class).size;
        if b - a < c {
            return None;
        }
        a += c;
    }
    Some((a, b))
}

fn ptr_off(base: &[u8], s: &[u8]) -> usize {
    (s.as_ptr() as usize).wrapping_sub(base.as_ptr() as usize)
}

fn check_slice(what: &str, ctx: &str, base: &[u8], got: Option<&[u8]>, want: Option<(usize, usize)>, out: &mut Outcome) -> bool {
    match (got, want) {
        (None, None) => true,
        (Some(g), None) => {
            out.violate(format!("range-not-in-file-but-Ok:{what}"), format!("{ctx}: returned {} bytes although the designated range does not fit in the {}-byte buffer", g.len(), base.len()));
            false
        }
        (None, Some((a, b))) => {
            out.violate(format!("range-fits-but-Err:{what}"), format!("{ctx}: error although [{a}, {b}) lies inside the {}-byte buffer", base.len()));
            false
        }
        (Some(g), Some((a, b))) => {
            if g.len() != b - a {
                out.violate(format!("wrong-length:{what}"), format!("{ctx}: {} bytes returned, the designated range [{a}, {b}) has {}", g.len(), b - a));
                return false;
            }
            if b > a && ptr_off(base, g) != a {
                out.violate(format!("wrong-place:{what}"), format!("{ctx}: slice starts at buffer offset {} instead of {a} (copied or shifted)", ptr_off(base, g) as isize));
                return false;
            }
            true
        }
    }
}

/// Notes of a typed view against the reference walk of the designated range [a, b): the same number
/// of notes, and every name / descriptor slice at the walker's offsets (by pointer).
fn check_notes(what: &str, ctx: &str, img: &[u8], a: usize, b: usize, align: usize, order: rl::Order, notes: &[Note<'_>], out: &mut Outcome) {
    let data = &img[a..b];
    let refn = walk_notes(order, align, data);
    if refn.len() != notes.len() {
        out.violate(format!("wrong-content:{what}"), format!("{ctx}: {} notes, reference walk of the designated range gives {}", notes.len(), refn.len()));
    }
    for (n, r) in notes.iter().zip(refn.iter()) {
        let (name, desc): (Option<&[u8]>, Option<&[u8]>) = match n {
            Note::Unknown(x) => (Some(x.name), Some(x.desc)),
            Note::GnuBuildId(x) => (None, Some(x.0)),
            _ => (None, None),
        };
        for (s, rr) in [(name, r.name), (desc, r.desc)] {
            if let Some(s) = s {
                if s.len() != rr.1 - rr.0 {
                    out.violate(format!("wrong-length:{what} name/descriptor"), format!("{ctx}: {} bytes instead of {}", s.len(), rr.1 - rr.0));
                } else if !s.is_empty() && ptr_off(img, s) != a + rr.0 {
                    out.violate("wrong-place:note name/descriptor", format!("{ctx}: at buffer offset {} instead of {}", ptr_off(img, s), a + rr.0));
                }
            }
        }
    }
}

/// Caller-supplied headers over the geometry alphabet, all views.
struct Crafted;
impl Crafted {
    fn dims() -> [u64; 7] {
        [4, 15, 12, 7, 4, MAGICS.len() as u64, BASES.len() as u64]
    }
}
/// contents put at the start of the designated range: formats a reader might be tempted to
/// recognise by content (legacy .zdebug "ZLIB" + big-endian size, zlib / gzip / zstd / xz / ELF /
/// ar magics, a GNU note header), all-zero and all-ones
const MAGICS: [&[u8]; 10] = [
    b"",
    b"ZLIB\0\0\0\0\0\0\0\x10rest-of-stream",
    b"\x78\x9c\x01\x02\x00\xfd\xff",
    b"\x1f\x8b\x08\x00\x00\x00\x00\x00",
    b"\x28\xb5\x2f\xfd\x00\x58",
    b"\xfd7zXZ\x00",
    b"\x7fELF\x02\x01\x01\x00",
    b"!<arch>\n",
    b"\0\0\0\0\0\0\0\0\0\0\0\0\0\0\0\0\0\0\0\0\0\0\0\0",
    b"\xff\xff\xff\xff\xff\xff\xff\xff\xff\xff\xff\xff\xff\xff\xff\xff\xff\xff\xff\xff\xff\xff\xff\xff",
];
fn base_image(enc: rl::Enc) -> Vec<u8> {
    static CACHE: std::sync::OnceLock<Vec<Vec<u8>>> = std::sync::OnceLock::new();
    let all = CACHE.get_or_init(|| ENCS.iter().map(|e| tiny_full(*e, TableOrder::TablesFirst).0.bytes).collect());
    all[ENCS.iter().position(|e| *e == enc).unwrap()].clone()
}
fn base_variant(enc: rl::Enc, which: usize) -> Vec<u8> {
    let mut v = base_image(enc);
    let (et, shdrs, _) = BASES[which];
    let fi = |n: &str| {
        let l = layout(Kind::Ehdr, enc.class);
        let f = &l.fields[rl::field_index(Kind::Ehdr, enc.class, n)];
        (f.off, f.width)
    };
    let (o, w) = fi("e_type");
    rl::put(&mut v, o, w, enc.order, et as u64);
    if !shdrs {
        for n in ["e_shoff", "e_shnum", "e_shstrndx"] {
            let (o, w) = fi(n);
            rl::put(&mut v, o, w, enc.order, 0);
        }
    }
    v
}
impl Space for Crafted {
    fn name(&self) -> String {
        "caller-supplied SectionHeader / ProgramHeader on {ET_DYN, ET_CORE, ET_CORE without section headers, ET_REL without section headers} files: offset in {0,1,63,64,L-2,L-1,L,L+1,2^32-1,2^63,2^64-1,L/2,L-12,L-24,L-25} x size in {0,1,2,L-off-1,L-off,L-off+1,2^32-1,2^64-off-1,2^64-off,24,12,25} x sh_type in {PROGBITS,NOBITS,STRTAB,REL,RELA,NOTE,DYNAMIC} x flags in {0,COMPRESSED,COMPRESSED|ALLOC,ALLOC} x 4 encodings x contents at the start of the range in {as generated, ZLIB+size, zlib, gzip, zstd, xz, ELF, ar magics, zeros, ones}; p_memsz in {0, filesz, filesz+7}, p_type in {LOAD, NOTE, DYNAMIC, NULL}; all typed views".into()
    }
    fn size(&self) -> u64 {
        product(&Self::dims())
    }
    fn describe(&self, idx: u64) -> Value {
        let d = unmix(idx, &Self::dims());
        let enc = ENCS[d[0] as usize];
        let img = base_image(enc);
        let l = img.len() as u64;
        let off = offsets(l)[d[1] as usize];
        json!({"encoding": enc.name(), "file_len": l, "offset": format!("{:#x}", off), "size": format!("{:#x}", sizes(l, off)[d[2] as usize]), "sh_type": SH_TYPES[d[3] as usize], "sh_flags": SH_FLAGS[d[4] as usize], "content_at_range_start": hex(MAGICS[d[5] as usize]), "file": BASES[d[6] as usize].2})
    }
    fn run(&self, idx: u64, out: &mut Outcome) {
        let d = unmix(idx, &Self::dims());
        let enc = ENCS[d[0] as usize];
        if d[6] != 0 && d[5] != 0 {
            // the file variants are combined with the generated contents only
            out.count("file_variant_x_content_variant_not_needed");
            return;
        }
        let mut img = base_variant(enc, d[6] as usize);
        let l = img.len() as u64;
        let off = offsets(l)[d[1] as usize];
        let size = sizes(l, off)[d[2] as usize];
        let magic = MAGICS[d[5] as usize];
        if !magic.is_empty() {
            // only where it leaves the file's own headers intact (the base image keeps its tables in
            // front: see tiny_full / TablesFirst)
            let pristine = img.clone();
            if (off as usize) < img.len() {
                let a = off as usize;
                let n = magic.len().min(img.len() - a);
                img[a..a + n].copy_from_slice(&magic[..n]);
            }
            if img == pristine || ElfBytes::<AnyEndian>::minimal_parse(&img).is_err() {
                out.count("content_variant_not_applicable");
                return;
            }
        }
        let ty = SH_TYPES[d[3] as usize];
        let flags = SH_FLAGS[d[4] as usize];
        let align = [4u64, 3, 8, 12, 1][((d[1] + d[2]) % 5) as usize];
        let h = SectionHeader { sh_name: 0, sh_type: ty, sh_flags: flags, sh_addr: 0, sh_offset: off, sh_size: size, sh_link: 0, sh_info: 0, sh_addralign: align, sh_entsize: 0 };
        let f = match ElfBytes::<AnyEndian>::minimal_parse(&img) {
            Ok(f) => f,
            Err(e) => panic!("base image does not parse: {e}"),
        };
        let ctx = format!("{} shdr{{type {ty}, flags {flags:#x}, offset {off:#x}, size {size:#x}, addralign {align}}} on a {l}-byte {} buffer", enc.name(), BASES[d[6] as usize].2);
        let want = designated_section(enc, img.len(), &h);
        let mut dig = Fnv::new();
        // section_data
        out.transitions += 1;
        match subject(|| f.section_data(&h).ok()) {
            Err(m) => {
                out.violate(format!("panic:ElfBytes::section_data in {}", panic_site(&m)), m);
                return;
            }
            Ok(r) => {
                let want_sd = if flags & abi::SHF_COMPRESSED as u64 != 0 && ty != abi::SHT_NOBITS {
                    // the compression header itself must also parse from the range
                    want
                } else {
                    want
                };
                if check_slice("ElfBytes::section_data", &ctx, &img, r.as_ref().map(|x| x.0), want_sd, out) {
                    if let Some((s, ch)) = r {
                        dig.bytes(s);
                        let compressed = flags & abi::SHF_COMPRESSED as u64 != 0 && ty != abi::SHT_NOBITS;
                        if ch.is_some() != compressed {
                            out.violate("compression-header-presence:ElfBytes::section_data", format!("{ctx}: chdr is {}", if ch.is_some() { "Some" } else { "None" }));
                        }
                    }
                }
            }
        }
        // typed views (only the matching type is accepted: C20 checks refusal; here: where the data lies)
        if let Some((a, b)) = want {
            if ty == abi::SHT_STRTAB {
                out.transitions += 1;
                if let Ok(Ok(st)) = subject(|| f.section_data_as_strtab(&h)) {
                    // first string of the view starts at the first byte of the designated range
                    if b > a {
                        // every entry of the view is the NUL-terminated run of the designated range
                        // at that offset (content and place), or an error where the range has none
                        let range = &img[a..b];
                        for o in 0..(b - a).min(40) {
                            let want: Option<&[u8]> = range[o..].iter().position(|x| *x == 0).map(|e| &range[o..o + e]);
                            let got = st.get_raw(o).ok();
                            if got != want {
                                out.violate("wrong-content:ElfBytes::section_data_as_strtab", format!("{ctx}: entry at table offset {o} is {:?}, the designated range holds {:?}", got.map(hex), want.map(hex)));
                                break;
                            }
                            if let Some(s) = got {
                                if !s.is_empty() && ptr_off(&img, s) != a + o {
                                    out.violate("wrong-place:ElfBytes::section_data_as_strtab", format!("{ctx}: string at table offset {o} lies at buffer offset {} instead of {}", ptr_off(&img, s), a + o));
                                    break;
                                }
                            }
                        }
                        // the view ends with the range: the last byte's string (if NUL-terminated) is inside
                        if st.get_raw(b - a).is_ok() {
                            out.violate("wrong-length:ElfBytes::section_data_as_strtab", format!("{ctx}: offset {} (one past the range) is accepted", b - a));
                        }
                    }
                } else {
                    out.violate("range-fits-but-Err:ElfBytes::section_data_as_strtab", ctx.clone());
                }
            }
            if ty == abi::SHT_NOTE {
                out.transitions += 1;
                let data = &img[a..b];
                match subject(|| f.section_data_as_notes(&h).ok().map(|it| it.take(data.len() + 2).collect::<Vec<_>>())) {
                    Ok(Some(notes)) => check_notes("ElfBytes::section_data_as_notes", &ctx, &img, a, b, align as usize, enc.order, &notes, out),
                    Ok(None) => out.violate("range-fits-but-Err:ElfBytes::section_data_as_notes", ctx.clone()),
                    Err(m) => out.violate(format!("panic:ElfBytes::section_data_as_notes in {}", panic_site(&m)), m),
                }
            }
            if ty == abi::SHT_REL || ty == abi::SHT_RELA {
                out.transitions += 1;
                let ent = layout(if ty == abi::SHT_REL { Kind::Rel } else { Kind::Rela }, enc.class).size;
                let n = if ty == abi::SHT_REL {
                    subject(|| f.section_data_as_rels(&h).ok().map(|it| it.take(b - a + 2).map(|r| r.r_offset).collect::<Vec<u64>>()))
                } else {
                    subject(|| f.section_data_as_relas(&h).ok().map(|it| it.take(b - a + 2).map(|r| r.r_offset).collect::<Vec<u64>>()))
                };
                match n {
                    Ok(Some(v)) => {
                        let want_offs: Vec<u64> = (0..(b - a) / ent).map(|i| rl::get(&img, a + i * ent, enc.word(), enc.order)).collect();
                        if v != want_offs {
                            out.violate("wrong-content:ElfBytes::section_data_as_rel(a)s", format!("{ctx}: entries do not decode from the designated range [{a}, {b})"));
                        }
                    }
                    Ok(None) => out.violate("range-fits-but-Err:ElfBytes::section_data_as_rel(a)s", ctx.clone()),
                    Err(m) => out.violate(format!("panic:ElfBytes::section_data_as_rels in {}", panic_site(&m)), m),
                }
            }
        }
        // segments: p_filesz bounds the data, p_memsz never does
        for (memsz, p_type) in [(0u64, P_TYPES[(d[3] % 4) as usize]), (size.wrapping_add(7), P_TYPES[((d[3] + 1) % 4) as usize]), (size, abi::PT_LOAD)] {
            let p = ProgramHeader { p_type, p_offset: off, p_vaddr: 0, p_paddr: 0, p_filesz: size, p_memsz: memsz, p_flags: 4, p_align: 4 };
            let end = off as u128 + size as u128;
            let want = if end <= img.len() as u128 { Some((off as usize, end as usize)) } else { None };
            out.transitions += 1;
            match subject(|| f.segment_data(&p).ok()) {
                Err(m) => out.violate(format!("panic:ElfBytes::segment_data in {}", panic_site(&m)), m),
                Ok(r) => {
                    let c = format!("{} phdr{{type {p_type}, offset {off:#x}, filesz {size:#x}, memsz {memsz:#x}}} on a {l}-byte {} buffer", enc.name(), BASES[d[6] as usize].2);
                    check_slice("ElfBytes::segment_data", &c, &img, r, want, out);
                }
            }
        }
        if want.is_some() {
            dig.u64(idx);
            out.nontrivial(dig.get());
            out.count("range_fits");
        } else {
            out.count("range_does_not_fit");
        }
    }
}

/// The same geometry carried by real table entries: every section / segment of the tiny-full
/// skeletons and the samples must be returned in place.
struct InPlace {
    sks: Vec<Skeleton>,
}
impl Space for InPlace {
    fn name(&self) -> String {
        format!("every section and segment of {} files (generated skeletons in both layouts, extended-numbering shapes, the repository samples): section_data / segment_data pointer identity, string-table entries and note names/descriptors at the reference walker's offsets", self.sks.len())
    }
    fn size(&self) -> u64 {
        self.sks.len() as u64
    }
    fn describe(&self, idx: u64) -> Value {
        json!({"file": self.sks[idx as usize].name})
    }
    fn run(&self, idx: u64, out: &mut Outcome) {
        let sk = &self.sks[idx as usize];
        let img = &sk.bytes;
        let f = match ElfBytes::<AnyEndian>::minimal_parse(img) {
            Ok(f) => f,
            Err(_) => return,
        };
        let mut dig = Fnv::new();
        if let Some(t) = f.section_headers() {
            for (i, h) in t.iter().enumerate() {
                let ctx = format!("{} section {}", sk.name, i);
                let want = designated_section(sk.enc, img.len(), &h);
                out.transitions += 1;
                match subject(|| f.section_data(&h).ok()) {
                    Err(m) => out.violate(format!("panic:ElfBytes::section_data in {}", panic_site(&m)), m),
                    Ok(r) => {
                        if check_slice("ElfBytes::section_data", &ctx, img, r.as_ref().map(|x| x.0), want, out) {
                            if let Some((s, _)) = r {
                                dig.bytes(s);
                            }
                        }
                    }
                }
                if h.sh_type == abi::SHT_NOTE {
                    if let Some((a, b)) = want {
                        out.transitions += 1;
                        match subject(|| f.section_data_as_notes(&h).ok().map(|it| it.take(b - a + 2).collect::<Vec<_>>())) {
                            Ok(Some(notes)) => check_notes("ElfBytes::section_data_as_notes", &ctx, img, a, b, h.sh_addralign as usize, sk.enc.order, &notes, out),
                            Ok(None) => out.violate("range-fits-but-Err:ElfBytes::section_data_as_notes", ctx.clone()),
                            Err(m) => out.violate(format!("panic:ElfBytes::section_data_as_notes in {}", panic_site(&m)), m),
                        }
                    }
                }
                if h.sh_type == abi::SHT_STRTAB {
                    if let (Some((a, b)), Ok(st)) = (want, f.section_data_as_strtab(&h)) {
                        for o in 0..(b - a) {
                            if let Ok(s) = st.get_raw(o) {
                                out.transitions += 1;
                                if !s.is_empty() && ptr_off(img, s) != a + o {
                                    out.violate("wrong-place:StringTable::get_raw", format!("{ctx}: string at table offset {o} lies at buffer offset {} instead of {}", ptr_off(img, s), a + o));
                                    break;
                                }
                            }
                        }
                    }
                }
            }
        }
        if let Some(t) = f.segments() {
            for (j, p) in t.iter().enumerate() {
                let end = p.p_offset as u128 + p.p_filesz as u128;
                let want = if end <= img.len() as u128 { Some((p.p_offset as usize, end as usize)) } else { None };
                out.transitions += 1;
                match subject(|| f.segment_data(&p).ok()) {
                    Err(m) => out.violate(format!("panic:ElfBytes::segment_data in {}", panic_site(&m)), m),
                    Ok(r) => {
                        check_slice("ElfBytes::segment_data", &format!("{} segment {}", sk.name, j), img, r, want, out);
                    }
                }
                if p.p_type == abi::PT_NOTE {
                    if let Some((a, b)) = want {
                        let ctx = format!("{} segment {}", sk.name, j);
                        out.transitions += 1;
                        match subject(|| f.segment_data_as_notes(&p).ok().map(|it| it.take(b - a + 2).collect::<Vec<_>>())) {
                            Ok(Some(notes)) => check_notes("ElfBytes::segment_data_as_notes", &ctx, img, a, b, p.p_align as usize, sk.enc.order, &notes, out),
                            Ok(None) => out.violate("range-fits-but-Err:ElfBytes::segment_data_as_notes", ctx),
                            Err(m) => out.violate(format!("panic:ElfBytes::segment_data_as_notes in {}", panic_site(&m)), m),
                        }
                    }
                }
            }
        }
        out.nontrivial(dig.get() ^ idx);
    }
}

/// The section-name string table is the range of the section the header (or, with the
/// SHN_XINDEX escape, the full 32-bit shdr[0].sh_link) designates - or an error.
struct NameTable;
const NT_LINKS: [u64; 12] = [0, 1, 2, 3, 4, 5, 0xffff, 0x1_0000, 0x1_0003, 0x2_0003, 0xffff_0003, 0xffff_ffff];
impl Space for NameTable {
    fn name(&self) -> String {
        "section_headers_with_strtab on the extended-numbering shapes with e_shstrndx in {as built, SHN_XINDEX} x shdr[0].sh_link in {0..5, 0xffff, 2^16, 2^16+3, 2^17+3, 0xffff0003, 2^32-1}: the table handed out lies exactly on the designated section's range (by pointer), an undesignated one is never handed out; 4 encodings".into()
    }
    fn size(&self) -> u64 {
        4 * 2 * NT_LINKS.len() as u64
    }
    fn describe(&self, idx: u64) -> Value {
        let d = unmix(idx, &[4, 2, NT_LINKS.len() as u64]);
        json!({"encoding": ENCS[d[0] as usize].name(), "e_shstrndx": if d[1] == 0 { "index of .shstrtab" } else { "SHN_XINDEX" }, "shdr0_sh_link": format!("{:#x}", NT_LINKS[d[2] as usize])})
    }
    fn run(&self, idx: u64, out: &mut Outcome) {
        let d = unmix(idx, &[4, 2, NT_LINKS.len() as u64]);
        let sk = &extnum_shapes()[d[0] as usize];
        let enc = sk.enc;
        let mut img = sk.bytes.clone();
        let site = |r: &str| sk.sites.iter().find(|s| s.role == r).unwrap_or_else(|| panic!("no site {r}")).clone();
        let link = NT_LINKS[d[2] as usize];
        let built_ndx = site("shdr[0].sh_link").valid;
        let st = site("shdr[0].sh_link");
        rl::put(&mut img, st.off, st.width, enc.order, link);
        if d[1] == 0 {
            let e = site("ehdr.e_shstrndx");
            rl::put(&mut img, e.off, e.width, enc.order, built_ndx);
        }
        // reference: which section is designated
        let nsec = site("shdr[0].sh_size").valid;
        let ndx = if d[1] == 0 { built_ndx } else { link };
        let shoff = rl::get(&img, site("ehdr.e_shoff").off, site("ehdr.e_shoff").width, enc.order) as usize;
        let shl = layout(Kind::Shdr, enc.class);
        let designated: Option<(usize, usize)> = if ndx < nsec {
            let v = rl::decode(Kind::Shdr, enc, &img, shoff + ndx as usize * shl.size);
            let fi = |n: &str| rl::field_index(Kind::Shdr, enc.class, n);
            let (o, z) = (v[fi("sh_offset")] as usize, v[fi("sh_size")] as usize);
            if o + z <= img.len() {
                Some((o, o + z))
            } else {
                None
            }
        } else {
            None
        };
        out.transitions += 1;
        let ctx = format!("{} e_shstrndx {} shdr[0].sh_link {:#x} ({} sections)", enc.name(), if d[1] == 0 { "direct" } else { "SHN_XINDEX" }, link, nsec);
        let r = subject(|| {
            let f = ElfBytes::<AnyEndian>::minimal_parse(&img).ok()?;
            let (_, st) = f.section_headers_with_strtab().ok()?;
            let st = st?;
            // locate the table: the first non-empty string it hands out
            for o in 0..64usize {
                if let Ok(s) = st.get_raw(o) {
                    if !s.is_empty() {
                        return Some(Some(ptr_off(&img, s) - o));
                    }
                }
            }
            Some(None)
        });
        match r {
            Err(m) => out.violate(format!("panic:ElfBytes::section_headers_with_strtab in {}", panic_site(&m)), m),
            Ok(None) => {
                // error / no table: fine unless a fitting section is designated (ndx 0 = SHN_UNDEF means none)
                if let (Some((a, b)), true) = (designated, ndx != 0) {
                    let v = rl::decode(Kind::Shdr, enc, &img, shoff + ndx as usize * shl.size);
                    if v[rl::field_index(Kind::Shdr, enc.class, "sh_type")] == abi::SHT_STRTAB as u64 {
                        out.violate("range-fits-but-Err:section name table", format!("{ctx}: no table although section {ndx} [{a}, {b}) is a string table inside the file"));
                    }
                }
            }
            Ok(Some(None)) => {}
            Ok(Some(Some(start))) => match designated {
                Some((a, _)) if a == start => out.nontrivial(idx ^ 0x5712),
                Some((a, b)) => out.violate("wrong-place:section name table", format!("{ctx}: the table handed out starts at buffer offset {start}, the designated section is [{a}, {b})")),
                None => out.violate("undesignated:section name table", format!("{ctx}: a string table at buffer offset {start} is handed out although no existing section is designated")),
            },
        }
    }
}

/// String tables reached through a symbol table's sh_link: `symbol_table()`,
/// `dynamic_symbol_table()` and `find_common_data()` hand out exactly the byte range of the section
/// the link names - whichever section that is, header 0 included.
struct Linked;
impl Space for Linked {
    fn name(&self) -> String {
        "string tables behind sh_link: .symtab / .dynsym of the tiny-full object with sh_link = every section index 0..=nsec+1 x header 0 {all zero, carrying a range [100,137), carrying the section count as with e_shnum = 0} x 4 encodings; the table handed out by symbol_table / dynamic_symbol_table / find_common_data is compared entry by entry (content and pointer) with the linked section's byte range".into()
    }
    fn size(&self) -> u64 {
        4 * 2 * 3 * 24
    }
    fn describe(&self, idx: u64) -> Value {
        let d = unmix(idx, &[4, 2, 3, 24]);
        let h0 = ["all zero", "range [100,137)", "sh_size = section count"][d[2] as usize];
        json!({"encoding": ENCS[d[0] as usize].name(), "table": if d[1] == 0 { ".symtab" } else { ".dynsym" }, "header_0": h0, "sh_link": d[3]})
    }
    fn run(&self, idx: u64, out: &mut Outcome) {
        let d = unmix(idx, &[4, 2, 3, 24]);
        let enc = ENCS[d[0] as usize];
        let (mut b, _) = tiny_full(enc, TableOrder::TablesFirst);
        let nsec = b.shnum as u64;
        let link = d[3];
        if link > nsec + 1 {
            out.count("beyond_nsec+1_not_needed");
            return;
        }
        let which = if d[1] == 0 { crate::skeleton::idx::SYMTAB } else { crate::skeleton::idx::DYNSYM };
        b.patch(&format!("shdr[{which}].sh_link"), link);
        match d[2] {
            1 => {
                b.patch("shdr[0].sh_offset", 100);
                b.patch("shdr[0].sh_size", 37);
            }
            2 => b.patch("shdr[0].sh_size", nsec),
            _ => {}
        }
        let img = &b.bytes;
        // reference: the linked section's raw range (type and flags of the target are not interpreted
        // on this path; NOBITS / SHF_COMPRESSED targets are left unjudged)
        let shl = layout(Kind::Shdr, enc.class);
        let fi = |n: &str| rl::field_index(Kind::Shdr, enc.class, n);
        let target: Option<(usize, usize, bool)> = if link < nsec {
            let v = rl::decode(Kind::Shdr, enc, img, b.shoff + link as usize * shl.size);
            let (o, z) = (v[fi("sh_offset")] as u128, v[fi("sh_size")] as u128);
            let odd = v[fi("sh_type")] == abi::SHT_NOBITS as u64 || v[fi("sh_flags")] & abi::SHF_COMPRESSED as u64 != 0;
            if o + z <= img.len() as u128 {
                Some((o as usize, (o + z) as usize, odd))
            } else {
                None
            }
        } else {
            None
        };
        let ctx = format!("{} {} with sh_link {} (header 0: {})", enc.name(), if d[1] == 0 { ".symtab" } else { ".dynsym" }, link, ["all zero", "range [100,137)", "sh_size = section count"][d[2] as usize]);
        let probe = |st: &elf::string_table::StringTable<'_>, range: (usize, usize), what: &str, out: &mut Outcome| {
            let (a, z) = range;
            let bytes = &img[a..z];
            for o in 0..(z - a).min(48) + 1 {
                let want: Option<&[u8]> = if o < bytes.len() { bytes[o..].iter().position(|x| *x == 0).map(|e| &bytes[o..o + e]) } else { None };
                let got = st.get_raw(o).ok();
                if got != want {
                    out.violate(format!("wrong-content:{what} string table"), format!("{ctx}: entry at table offset {o} is {:?}, the linked section [{a}, {z}) holds {:?}", got.map(hex), want.map(hex)));
                    return;
                }
                if let Some(g) = got {
                    if !g.is_empty() && ptr_off(img, g) != a + o {
                        out.violate(format!("wrong-place:{what} string table"), format!("{ctx}: string at table offset {o} lies at buffer offset {} instead of {}", ptr_off(img, g), a + o));
                        return;
                    }
                }
            }
        };
        out.transitions += 2;
        let r = subject(|| {
            let f = ElfBytes::<AnyEndian>::minimal_parse(img).ok()?;
            let direct = if d[1] == 0 { f.symbol_table() } else { f.dynamic_symbol_table() };
            let common = f.find_common_data();
            Some((direct.ok().flatten().map(|x| x.1), common.ok().and_then(|c| if d[1] == 0 { c.symtab_strs } else { c.dynsyms_strs })))
        });
        match r {
            Err(m) => out.violate(format!("panic:symbol table accessors in {}", panic_site(&m)), m),
            Ok(None) => out.count("does_not_open"),
            Ok(Some((direct, common))) => {
                for (st, what) in [(direct, if d[1] == 0 { "symbol_table" } else { "dynamic_symbol_table" }), (common, "find_common_data")] {
                    match (st, target) {
                        (Some(st), Some((a, z, false))) => {
                            probe(&st, (a, z), what, out);
                            out.nontrivial(idx ^ ((a as u64) << 20));
                        }
                        (Some(st), None) => {
                            // nothing is designated: no string may come out of the table
                            if (0..64).any(|o| st.get_raw(o).map(|s| !s.is_empty()).unwrap_or(false)) {
                                out.violate(format!("undesignated:{what} string table"), format!("{ctx}: strings are handed out although the link names no section inside the file"));
                            }
                        }
                        _ => {}
                    }
                }
            }
        }
    }
}

pub fn build(_tier: Tier) -> CheckDef {
    let mut sks = tiny_skeletons();
    sks.extend(small_shapes());
    sks.extend(extnum_shapes());
    sks.extend(sample_skeletons());
    for e in ENCS {
        sks.extend(rotated_skeletons(e).into_iter().step_by(7));
    }
    CheckDef {
        prop: "C03",
        level: "model_checking",
        rule: "complete enumeration of the range-geometry alphabet (every combination of offset, size, type and flags, incl. zero-length, EOF-touching, one-past-EOF and overflowing ranges) for caller-supplied headers, and every real section/segment of the generated and sample files; each returned slice is compared by POINTER and length with the reference-computed designated range (never by content only). non-trivial = geometry whose range fits".into(),
        assumptions: vec!["relocation and dynamic views expose no slice; their entries are compared with a reference decode of the designated range".into()],
        spaces: vec![Box::new(Crafted), Box::new(InPlace { sks }), Box::new(NameTable), Box::new(Linked),
            // note names and descriptors through both parsers under every alignment, type and size residue
            Box::new(super::c14::ThroughFile)],
        abort_is_violation: false,
        hang_is_violation: false,
        exhaustive: true,
        bounds: json!({"geometry": "15 offsets x 12 sizes x 7 types x 4 flag sets x 4 encodings x (10 contents | 4 file variants)"}),
    }
}
