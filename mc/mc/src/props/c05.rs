//! C05 — header tables are located exactly as the ELF header (and shdr[0]) declare.
use super::common::*;
use super::slice_oracles::panic_site;
use crate::alloc::subject;
use crate::framework::*;
use crate::lattice::{v16, v64};
use crate::stream::{EnvReader, Stream};
use crate::util::*;
use elf::ElfBytes;
use refmodel::layout::{self as rl, encode, layout, put, Kind, ENCS};
use serde_json::{json, Value};
use std::sync::Arc;

const NSEC: [u64; 10] = [0, 1, 2, 3, 0xfeff, 0xff00, 0xff01, 0xff20, 0x10000, 0x10010];
const NPH: [u64; 7] = [0, 1, 2, 0xfffe, 0xffff, 0x10000, 0x10010];

/// Hand-laid image: ehdr, optional padding, phdr table, section bodies, shdr table (placement
/// variants). Every header carries a unique tag (sh_addr / p_vaddr = 0xA000_0000 + index).
pub struct Img {
    pub bytes: Vec<u8>,
    pub shoff: u64,
    pub phoff: u64,
}

#[derive(Clone, Copy, Debug, PartialEq, Eq)]
pub enum Placement {
    PhThenSh,
    ShThenPh,
    ShAtEof,
    ShOnePastEof,
}
const PLACEMENTS: [Placement; 4] = [Placement::PhThenSh, Placement::ShThenPh, Placement::ShAtEof, Placement::ShOnePastEof];

/// The reference writer (Appendix B): how n sections / p program headers / name-table index x are encoded.
pub struct Encoding {
    pub e_shnum: u64,
    pub e_phnum: u64,
    pub e_shstrndx: u64,
    pub sh0_size: u64,
    pub sh0_info: u64,
    pub sh0_link: u64,
    /// sh_type and sh_flags written into section header 0 (0 for the usual null section)
    pub sh0_type: u64,
}
pub fn reference_encoding(nsec: u64, nph: u64, strndx: u64) -> Encoding {
    Encoding {
        e_shnum: if nsec >= 0xff00 { 0 } else { nsec },
        e_phnum: if nph >= 0xffff { 0xffff } else { nph },
        e_shstrndx: if strndx >= 0xff00 { 0xffff } else { strndx },
        sh0_size: if nsec >= 0xff00 { nsec } else { 0 },
        sh0_info: if nph >= 0xffff { nph } else { 0 },
        sh0_link: if strndx >= 0xff00 { strndx } else { 0 },
        sh0_type: 0,
    }
}

pub fn make(enc: rl::Enc, nsec: u64, nph: u64, strndx: u64, place: Placement, e: &Encoding, shentsize: u64, phentsize: u64) -> Img {
    let ehs = layout(Kind::Ehdr, enc.class).size as u64;
    let shs = layout(Kind::Shdr, enc.class).size as u64;
    let phs = layout(Kind::Phdr, enc.class).size as u64;
    let strtab = b"\0.name\0.x\0";
    let body_len = 64u64;
    let (phoff, shoff, total);
    match place {
        Placement::PhThenSh => {
            phoff = ehs;
            let data = phoff + nph * phs;
            shoff = data + body_len;
            total = shoff + nsec * shs;
        }
        Placement::ShThenPh => {
            shoff = ehs + 8;
            let data = shoff + nsec * shs;
            phoff = data + body_len;
            total = phoff + nph * phs;
        }
        Placement::ShAtEof | Placement::ShOnePastEof => {
            phoff = ehs;
            let data = phoff + nph * phs;
            shoff = data + body_len;
            total = shoff + nsec * shs - if place == Placement::ShOnePastEof && nsec > 0 { 1 } else { 0 };
        }
    }
    let mut b = vec![0u8; total as usize];
    let data_off = match place {
        Placement::ShThenPh => shoff + nsec * shs,
        _ => phoff + nph * phs,
    };
    b[data_off as usize..data_off as usize + strtab.len()].copy_from_slice(strtab);
    let ehdr = encode(
        Kind::Ehdr,
        enc,
        &[0x7f, b'E' as u64, b'L' as u64, b'F' as u64, enc.ei_class() as u64, enc.ei_data() as u64, 1, 0, 0, 2, 62, 1, 0, if nph > 0 { phoff } else { 0 }, if nsec > 0 { shoff } else { 0 }, 0, ehs, phentsize, e.e_phnum, shentsize, e.e_shnum, e.e_shstrndx],
        0,
    );
    b[..ehs as usize].copy_from_slice(&ehdr);
    for i in 0..nsec {
        let off = (shoff + i * shs) as usize;
        if off + shs as usize > b.len() {
            break;
        }
        let is_str = i == strndx && i != 0;
        let mut v = vec![if is_str { 1 } else { 7 }, if i == 0 { 0 } else if is_str { 3 } else { 1 }, 0, 0xA000_0000 + i, data_off, if is_str { strtab.len() as u64 } else { 4 }, 0, 0, 1, 0];
        if i == 0 {
            v = vec![if e.sh0_type != 0 { 1 } else { 0 }, e.sh0_type, if e.sh0_type != 0 { 2 } else { 0 }, 0xA000_0000, 0, e.sh0_size, e.sh0_link, e.sh0_info, 0, 0];
        }
        b[off..off + shs as usize].copy_from_slice(&encode(Kind::Shdr, enc, &v, 0));
    }
    for i in 0..nph {
        let off = (phoff + i * phs) as usize;
        let v = vec![1, data_off, 0xB000_0000 + i, 0, 4, 4, 4, 1];
        b[off..off + phs as usize].copy_from_slice(&encode(Kind::Phdr, enc, &v, 0));
    }
    Img { bytes: b, shoff: if nsec > 0 { shoff } else { 0 }, phoff: if nph > 0 { phoff } else { 0 } }
}

#[derive(Debug, PartialEq, Eq)]
struct Seen {
    opened: bool,
    shdrs: Option<(usize, bool)>, // (count, all tags in order)
    phdrs: Option<(usize, bool)>,
    /// section_headers_with_strtab: Err / no strtab / name of section `strndx` resolved through it
    strtab: Option<Option<bool>>,
}

fn observe_slice(bytes: &[u8], strndx: u64) -> Result<Seen, String> {
    subject(|| {
        let f = match ElfBytes::<AnyEndian>::minimal_parse(bytes) {
            Ok(f) => f,
            Err(_) => return Seen { opened: false, shdrs: None, phdrs: None, strtab: None },
        };
        let shdrs = f.section_headers().map(|t| {
            let mut ok = true;
            let mut n = 0usize;
            for (i, h) in t.iter().enumerate() {
                ok &= h.sh_addr == 0xA000_0000 + i as u64;
                n += 1;
            }
            ok &= n == t.len();
            if n > 0 {
                ok &= t.get(n - 1).map(|h| h.sh_addr == 0xA000_0000 + (n as u64 - 1)).unwrap_or(false);
                ok &= t.get(n).is_err();
            }
            (n, ok)
        });
        let phdrs = f.segments().map(|t| {
            let mut ok = true;
            let mut n = 0usize;
            for (i, p) in t.iter().enumerate() {
                ok &= p.p_vaddr == 0xB000_0000 + i as u64;
                n += 1;
            }
            ok &= n == t.len();
            (n, ok)
        });
        let strtab = match f.section_headers_with_strtab() {
            Err(_) => None,
            Ok((_, None)) => Some(None),
            Ok((Some(t), Some(st))) => Some(Some(t.get(strndx as usize).ok().and_then(|h| st.get(h.sh_name as usize).ok()).map(|s| s == ".name").unwrap_or(false))),
            Ok((None, Some(_))) => Some(Some(false)),
        };
        Seen { opened: true, shdrs, phdrs, strtab }
    })
}

fn observe_stream(bytes: &Arc<Vec<u8>>, strndx: u64) -> Result<Seen, String> {
    observe_stream_at(bytes, strndx, 0)
}

/// `pos`: where the reader stands when it is handed to open_stream
fn observe_stream_at(bytes: &Arc<Vec<u8>>, strndx: u64, pos: u64) -> Result<Seen, String> {
    subject(|| {
        let (rd, _st) = EnvReader::new(bytes.clone());
        _st.lock().unwrap().pos = pos;
        let mut f = match Stream::open_stream(rd) {
            Ok(f) => f,
            Err(_) => return Seen { opened: false, shdrs: None, phdrs: None, strtab: None },
        };
        let sh = f.section_headers();
        let shdrs = if sh.is_empty() { None } else { Some((sh.len(), sh.iter().enumerate().all(|(i, h)| h.sh_addr == 0xA000_0000 + i as u64))) };
        let ph = f.segments();
        let phdrs = if ph.is_empty() { None } else { Some((ph.len(), ph.iter().enumerate().all(|(i, p)| p.p_vaddr == 0xB000_0000 + i as u64))) };
        let strtab = match f.section_headers_with_strtab() {
            Err(_) => None,
            Ok((_, None)) => Some(None),
            Ok((t, Some(st))) => Some(Some(t.get(strndx as usize).and_then(|h| st.get(h.sh_name as usize).ok()).map(|s| s == ".name").unwrap_or(false))),
        };
        Seen { opened: true, shdrs, phdrs, strtab }
    })
}

/// Reference model of what opening must yield for counts (nsec, nph) written with encoding `e`.
fn expected(nsec: u64, nph: u64, strndx: u64, e: &Encoding, img: &Img, enc: rl::Enc, shentsize: u64, phentsize: u64) -> (Seen, Seen) {
    let shs = layout(Kind::Shdr, enc.class).size as u64;
    let phs = layout(Kind::Phdr, enc.class).size as u64;
    let flen = img.bytes.len() as u64;
    // counts the *reader* must derive from the header (Appendix B)
    let mut fails = false;
    let mut shn = 0u64;
    if img.shoff != 0 {
        shn = if e.e_shnum == 0 { e.sh0_size } else { e.e_shnum };
        if e.e_shnum == 0 && img.shoff + shs > flen {
            fails = true;
        }
        if shentsize != shs || img.shoff as u128 + shn as u128 * shs as u128 > flen as u128 {
            fails = true;
        }
    }
    let mut phn = 0u64;
    if img.phoff != 0 {
        phn = if e.e_phnum == 0xffff { e.sh0_info } else { e.e_phnum };
        if e.e_phnum == 0xffff && img.shoff + shs > flen {
            fails = true;
        }
        if phentsize != phs || img.phoff as u128 + phn as u128 * phs as u128 > flen as u128 {
            fails = true;
        }
    }
    // entries beyond what the writer laid out carry no tag: only their count is checked then
    let sh_tagged = shn <= nsec;
    let ph_tagged = phn <= nph;
    if fails {
        let s = Seen { opened: false, shdrs: None, phdrs: None, strtab: None };
        return (Seen { ..clone_seen(&s) }, s);
    }
    let idx = if e.e_shstrndx == 0xffff { e.sh0_link } else { e.e_shstrndx };
    let strtab = if img.shoff == 0 || shn == 0 {
        Some(None)
    } else if e.e_shstrndx == 0 {
        Some(None)
    } else if idx >= shn {
        None
    } else {
        Some(Some(idx == strndx && strndx != 0))
    };
    // the slice parser keeps a present-but-empty table: a name-table index into it is an error
    let strtab_slice = if img.shoff == 0 || e.e_shstrndx == 0 {
        Some(None)
    } else if idx >= shn {
        None
    } else {
        Some(Some(idx == strndx && strndx != 0))
    };
    let slice = Seen {
        opened: true,
        shdrs: if img.shoff != 0 { Some((shn as usize, sh_tagged)) } else { None },
        phdrs: if img.phoff != 0 { Some((phn as usize, ph_tagged)) } else { None },
        strtab: strtab_slice,
    };
    // the stream parser materialises vectors: an empty vector stands for "absent"
    let stream = Seen {
        opened: true,
        shdrs: if img.shoff != 0 && shn > 0 { Some((shn as usize, sh_tagged)) } else { None },
        phdrs: if img.phoff != 0 && phn > 0 { Some((phn as usize, ph_tagged)) } else { None },
        strtab: if img.shoff == 0 || shn == 0 { Some(None) } else { strtab },
    };
    (slice, stream)
}
fn clone_seen(s: &Seen) -> Seen {
    Seen { opened: s.opened, shdrs: s.shdrs, phdrs: s.phdrs, strtab: s.strtab.clone() }
}

fn judge(ctx: &str, which: &str, got: Result<Seen, String>, want: &Seen, out: &mut Outcome) {
    out.transitions += 1;
    match got {
        Err(m) => out.violate(format!("panic:{which} in {}", panic_site(&m)), format!("{ctx}: {m}")),
        Ok(g) => {
            if g.opened != want.opened {
                out.violate(format!("open-{}:{which}", if g.opened { "accepted" } else { "rejected" }), format!("{ctx}: opening {} but the reference model says it must {}", if g.opened { "succeeds" } else { "fails" }, if want.opened { "succeed" } else { "fail" }));
            } else if g.opened {
                // (count, tags-in-order): the tag flag is only demanded where the reference says so
                let eq = |a: Option<(usize, bool)>, b: Option<(usize, bool)>| match (a, b) {
                    (Some((n, t)), Some((m, wt))) => n == m && (t || !wt),
                    (None, None) => true,
                    _ => false,
                };
                if !eq(g.shdrs, want.shdrs) {
                    out.violate(format!("section-table:{which}"), format!("{ctx}: section headers (count, tags in order) = {:?}, reference {:?}", g.shdrs, want.shdrs));
                }
                if !eq(g.phdrs, want.phdrs) {
                    out.violate(format!("program-header-table:{which}"), format!("{ctx}: program headers (count, tags in order) = {:?}, reference {:?}", g.phdrs, want.phdrs));
                }
                if g.strtab != want.strtab {
                    out.violate(format!("section-name-table:{which}"), format!("{ctx}: name table = {:?}, reference {:?} (None = error, Some(None) = absent, Some(Some(b)) = resolves section name)", g.strtab, want.strtab));
                }
            }
        }
    }
}

/// counts x placements x encodings (right and wrong ones)
struct Numbering {
    /// quick tier: files in which BOTH tables are huge are built for two of the four encodings only
    quick: bool,
}
impl Numbering {
    fn dims() -> [u64; 6] {
        // enc, nsec, nph, placement, strndx choice, encoding variant
        [4, 10, 7, 4, 4, 8]
    }
}
impl Space for Numbering {
    fn name(&self) -> String {
        "generated files: section count in {0,1,2,3,0xfeff,0xff00,0xff01,0xff20,0x10000,0x10010} x program header count in {0,1,2,0xfffe,0xffff,0x10000,0x10010} x table placement {ph-then-sh, sh-then-ph, sh touching EOF, sh one byte past EOF} x name-table index {0,1,n-1,beyond} x header encoding {reference writer, e_shnum=0 forced, PN_XNUM forced, SHN_XINDEX forced, shdr[0] fields zeroed, shdr[0] fields off by one, raw e_shstrndx in the reserved range with a different shdr[0].sh_link, header 0 carrying a type / name / flags} x 4 encodings; both parsers".into()
    }
    fn size(&self) -> u64 {
        product(&Self::dims())
    }
    fn describe(&self, idx: u64) -> Value {
        let d = unmix(idx, &Self::dims());
        json!({"encoding": ENCS[d[0] as usize].name(), "sections": NSEC[d[1] as usize], "program_headers": NPH[d[2] as usize], "placement": format!("{:?}", PLACEMENTS[d[3] as usize]), "strndx_choice": d[4], "header_encoding_variant": d[5]})
    }
    fn run(&self, idx: u64, out: &mut Outcome) {
        let d = unmix(idx, &Self::dims());
        let enc = ENCS[d[0] as usize];
        let nsec = NSEC[d[1] as usize];
        let nph = NPH[d[2] as usize];
        let place = PLACEMENTS[d[3] as usize];
        let strndx = match d[4] {
            0 => 0,
            1 => 1,
            2 => nsec.saturating_sub(1),
            _ => nsec + 1,
        };
        if self.quick && nsec >= 0xfeff && nph >= 0xfffe && (d[0] == 0 || d[0] == 3) {
            out.count("both_tables_huge:thorough_tier_only_for_this_encoding");
            return;
        }
        if nsec == 0 && (d[3] >= 2 || d[4] != 0) {
            out.count("duplicate_of_another_case");
            return;
        }
        let mut e = reference_encoding(nsec, nph, strndx);
        match d[5] {
            0 => {}
            1 => {
                e.e_shnum = 0;
                e.sh0_size = nsec;
            }
            2 => {
                e.e_phnum = 0xffff;
                e.sh0_info = nph;
            }
            3 => {
                e.e_shstrndx = 0xffff;
                e.sh0_link = strndx;
            }
            4 => {
                e.sh0_size = 0;
                e.sh0_info = 0;
                e.sh0_link = 0;
            }
            7 => {
                // header 0 is not a null section (it has a type, a name and flags): the escapes read
                // its sh_size / sh_info / sh_link all the same
                e.sh0_type = 1;
            }
            6 => {
                // the raw index is written even when it lies in the reserved range 0xff00..=0xfffe
                // (only 0xffff redirects to shdr[0].sh_link); shdr[0].sh_link holds something else
                e.e_shstrndx = strndx;
                e.sh0_link = 1;
            }
            _ => {
                if e.e_shnum == 0 {
                    e.sh0_size = nsec.saturating_sub(1);
                }
                if e.e_phnum == 0xffff {
                    e.sh0_info = nph + 1;
                }
                if e.e_shstrndx == 0xffff {
                    e.sh0_link = strndx.saturating_sub(1);
                }
            }
        }
        // counts that do not fit their header field cannot be written at all
        if (e.e_shnum > 0xffff) || (e.e_phnum > 0xffff) || (e.e_shstrndx > 0xffff) {
            out.count("not_encodable");
            return;
        }
        if nsec == 0 && (e.e_shstrndx != 0 || e.e_phnum == 0xffff || d[5] == 1 || d[5] == 3) {
            out.count("needs_shdr0");
            return;
        }
        let shs = layout(Kind::Shdr, enc.class).size as u64;
        let phs = layout(Kind::Phdr, enc.class).size as u64;
        let img = make(enc, nsec, nph, strndx, place, &e, if nsec > 0 { shs } else { 0 }, if nph > 0 { phs } else { 0 });
        let ctx = format!("{} sections={nsec} phdrs={nph} strndx={strndx} {:?} e_shnum={:#x} e_phnum={:#x} e_shstrndx={:#x} shdr0(size={},info={},link={})", enc.name(), place, e.e_shnum, e.e_phnum, e.e_shstrndx, e.sh0_size, e.sh0_info, e.sh0_link);
        let (ws, wst) = expected(nsec, nph, strndx, &e, &img, enc, if nsec > 0 { shs } else { 0 }, if nph > 0 { phs } else { 0 });
        let arc = Arc::new(img.bytes);
        judge(&ctx, "ElfBytes", observe_slice(&arc, strndx), &ws, out);
        judge(&ctx, "ElfStream", observe_stream(&arc, strndx), &wst, out);
        if arc.len() < 100_000 {
            // a reader that is not at offset 0 when handed over (the caller sniffed the magic, or
            // measured the length) locates the same tables
            let l = arc.len() as u64;
            for pos in [16, l / 2, l] {
                judge(&format!("{ctx} reader at {pos}"), "ElfStream", observe_stream_at(&arc, strndx, pos), &wst, out);
            }
        }
        if nsec == 0 && nph == 0 && d[3] == 0 && d[5] == 0 {
            // both tables absent: the file may end right after its header. Every length from the
            // header size to the header size + 16 must open with the same (absent) tables
            let ehs = layout(Kind::Ehdr, enc.class).size;
            for k in 0..=16usize {
                let cut = Arc::new(arc[..ehs + k].to_vec());
                let c2 = format!("{ctx}, file cut to header + {k} bytes");
                judge(&c2, "ElfBytes", observe_slice(&cut, strndx), &ws, out);
                judge(&c2, "ElfStream", observe_stream(&cut, strndx), &wst, out);
            }
            out.count("header_only_lengths");
        }
        if ws.opened {
            out.nontrivial(idx);
            out.count("opens");
        } else {
            out.count("must_be_rejected");
        }
    }
}

/// every wrong e_shentsize / e_phentsize, and wrong sh_entsize on symtab, dynsym, versym, dynamic
struct Entsizes {
    all_small: bool,
}
impl Space for Entsizes {
    fn name(&self) -> String {
        format!("e_shentsize and e_phentsize over {} on a 3-section/2-phdr file; sh_entsize over V64 and size+-1 on .symtab, .dynsym, .gnu.version (both parsers) and .dynamic (slice parser) of the tiny-full skeleton; 4 encodings", if self.all_small { "all of 0..=0x100 and V16" } else { "V16 and size+-1" })
    }
    fn size(&self) -> u64 {
        4 * 7
    }
    fn describe(&self, idx: u64) -> Value {
        let fam = ["e_shentsize", "e_phentsize", ".symtab sh_entsize", ".dynsym sh_entsize", ".gnu.version sh_entsize", ".dynamic sh_entsize", "present-but-empty program header table"][(idx % 7) as usize];
        json!({"encoding": ENCS[(idx / 7) as usize].name(), "field": fam})
    }
    fn run(&self, idx: u64, out: &mut Outcome) {
        let enc = ENCS[(idx / 7) as usize];
        let fam = idx % 7;
        let shs = layout(Kind::Shdr, enc.class).size as u64;
        let phs = layout(Kind::Phdr, enc.class).size as u64;
        let mut n_ok = 0u64;
        if fam == 6 {
            // e_phoff != 0 with e_phnum == 0: the table is present and empty; its entry size and its
            // position are still checked (offset inside / at / past the end of the file)
            let e = reference_encoding(3, 0, 2);
            let base = make(enc, 3, 0, 2, Placement::PhThenSh, &e, shs, phs);
            let flen = base.bytes.len() as u64;
            let l = layout(Kind::Ehdr, enc.class);
            for phoff in [l.size as u64, flen - 1, flen, flen + 1, 1 << 40] {
                for phent in [phs, phs - 1, 0, 0xffff] {
                    let mut bytes = base.bytes.clone();
                    let f1 = &l.fields[rl::field_index(Kind::Ehdr, enc.class, "e_phoff")];
                    let f2 = &l.fields[rl::field_index(Kind::Ehdr, enc.class, "e_phentsize")];
                    let phoff_t = rl::trunc(phoff, f1.width);
                    put(&mut bytes, f1.off, f1.width, enc.order, phoff_t);
                    put(&mut bytes, f2.off, f2.width, enc.order, phent);
                    let img = Img { bytes: bytes.clone(), shoff: base.shoff, phoff: phoff_t };
                    let (ws, wst) = expected(3, 0, 2, &e, &img, enc, shs, phent);
                    let ctx = format!("{} e_phoff={phoff_t:#x} e_phnum=0 e_phentsize={phent:#x} (file length {flen})", enc.name());
                    let arc = Arc::new(bytes);
                    judge(&ctx, "ElfBytes", observe_slice(&arc, 2), &ws, out);
                    judge(&ctx, "ElfStream", observe_stream(&arc, 2), &wst, out);
                    n_ok += ws.opened as u64;
                }
            }
        } else if fam < 2 {
            let right = if fam == 0 { shs } else { phs };
            let mut vals = v16();
            vals.extend([right - 1, right, right + 1, right * 2]);
            if self.all_small {
                vals.extend(0..=0x100);
            }
            vals.sort();
            vals.dedup();
            for v in vals {
                let e = reference_encoding(3, 2, 2);
                let img = make(enc, 3, 2, 2, Placement::PhThenSh, &e, if fam == 0 { v } else { shs }, if fam == 1 { v } else { phs });
                let (ws, wst) = expected(3, 2, 2, &e, &img, enc, if fam == 0 { v } else { shs }, if fam == 1 { v } else { phs });
                let ctx = format!("{} {}={v:#x}", enc.name(), if fam == 0 { "e_shentsize" } else { "e_phentsize" });
                let arc = Arc::new(img.bytes);
                judge(&ctx, "ElfBytes", observe_slice(&arc, 2), &ws, out);
                judge(&ctx, "ElfStream", observe_stream(&arc, 2), &wst, out);
                n_ok += ws.opened as u64;
            }
        } else {
            use crate::skeleton::{idx as sidx, tiny_full};
            let (b, _) = tiny_full(enc, refmodel::image::TableOrder::Linker);
            let (sec, right) = match fam {
                2 => (sidx::SYMTAB, layout(Kind::Sym, enc.class).size as u64),
                3 => (sidx::DYNSYM, layout(Kind::Sym, enc.class).size as u64),
                4 => (sidx::VERSYM, 2),
                _ => (sidx::DYNAMIC, layout(Kind::Dyn, enc.class).size as u64),
            };
            let site = b.site(&format!("shdr[{}].sh_entsize", sec)).clone();
            let mut vals = v64();
            vals.extend([right - 1, right, right + 1, right * 2]);
            vals.sort();
            vals.dedup();
            for v in vals {
                let v = rl::trunc(v, site.width);
                let mut bytes = b.bytes.clone();
                put(&mut bytes, site.off, site.width, enc.order, v);
                let ok_wanted = v == right;
                let ctx = format!("{} section {} sh_entsize={v:#x} (structure size {right})", enc.name(), sec);
                let arc = Arc::new(bytes);
                out.transitions += 2;
                let slice = subject(|| {
                    let f = ElfBytes::<AnyEndian>::minimal_parse(&arc).ok()?;
                    Some(match fam {
                        2 => f.symbol_table().map(|x| x.is_some()).ok(),
                        3 => f.dynamic_symbol_table().map(|x| x.is_some()).ok(),
                        4 => f.symbol_version_table().map(|x| x.is_some()).ok(),
                        _ => f.dynamic().map(|x| x.is_some()).ok(),
                    })
                });
                let common = subject(|| ElfBytes::<AnyEndian>::minimal_parse(&arc).ok().map(|f| f.find_common_data().is_ok()));
                let stream = subject(|| {
                    let (rd, _) = EnvReader::new(arc.clone());
                    let mut f = Stream::open_stream(rd).ok()?;
                    Some(match fam {
                        2 => f.symbol_table().map(|x| x.is_some()).ok(),
                        3 => f.dynamic_symbol_table().map(|x| x.is_some()).ok(),
                        4 => f.symbol_version_table().map(|x| x.is_some()).ok(),
                        _ => None,
                    })
                });
                for (who, r, applies) in [("ElfBytes", slice, true), ("ElfStream", stream, fam != 5)] {
                    match r {
                        Err(m) => out.violate(format!("panic:{who} in {}", panic_site(&m)), format!("{ctx}: {m}")),
                        Ok(None) => out.violate(format!("open-rejected:{who}"), ctx.clone()),
                        Ok(Some(res)) => {
                            if applies {
                                let accepted = res == Some(true);
                                if accepted != ok_wanted {
                                    out.violate(
                                        format!("sh_entsize-{}:{who}", if accepted { "wrong-value-accepted" } else { "right-value-rejected" }),
                                        format!("{ctx}: the accessor {}", if accepted { "accepted the table" } else { "rejected the table" }),
                                    );
                                }
                            }
                        }
                    }
                }
                // the one-pass discovery applies the same check to .symtab, .dynsym and .dynamic
                if fam != 4 {
                    match common {
                        Err(m) => out.violate(format!("panic:ElfBytes::find_common_data in {}", panic_site(&m)), m),
                        Ok(Some(ok)) => {
                            if ok != ok_wanted {
                                out.violate(
                                    format!("sh_entsize-{}:ElfBytes::find_common_data", if ok { "wrong-value-accepted" } else { "right-value-rejected" }),
                                    ctx.clone(),
                                );
                            }
                        }
                        Ok(None) => {}
                    }
                }
                n_ok += ok_wanted as u64;
            }
        }
        out.nontrivial(idx ^ (n_ok << 8));
    }
}

pub fn build(tier: Tier) -> CheckDef {
    CheckDef {
        prop: "C05",
        level: "model_checking",
        rule: "complete grid of generated files around the extended-numbering thresholds (counts, table placements, name-table indexes, right and wrong header encodings) and every entsize value of the alphabet; a reference model of the numbering rules says whether opening must succeed and how many uniquely tagged entries each table must have; both parsers are run on every file. non-trivial = file that must open".into(),
        assumptions: vec!["files up to ~8 MB are generated in memory (0xff20 sections x 64 B + 0x10010 program headers x 56 B)".into()],
        spaces: vec![Box::new(Numbering { quick: tier == Tier::Quick }), Box::new(Entsizes { all_small: tier == Tier::Thorough })],
        abort_is_violation: true,
        hang_is_violation: false,
        exhaustive: true,
        bounds: json!({"section_counts": NSEC, "program_header_counts": NPH}),
    }
}
