//! C11 / C12 — GNU and SysV hash lookup: sound on any table, complete on well-formed ones.
use super::common::*;
use super::slice_oracles::panic_site;
use crate::alloc::subject;
use crate::framework::*;
use crate::lattice::v32;
use crate::skeleton::*;
use crate::util::*;
use elf::hash::{GnuHashTable, SysVHashTable};
use elf::string_table::StringTable;
use elf::symbol::SymbolTable;
use elf::ElfBytes;
use refmodel::hashes::*;
use refmodel::layout::{get, put, ENCS};
use serde_json::{json, Value};

/// Name universe: empty, short, non-UTF-8, >= 0x80 bytes, hash collisions, bit-0 neighbours,
/// prefix pairs, a long name exercising the SysV high-nibble fold.
fn universe(gnu: bool, n: usize) -> Vec<Vec<u8>> {
    let all: Vec<&[u8]> = if gnu {
        // djb2: "ab" and "bA" collide (97*33+98 == 98*33+65); "aa"/"ab" differ in bit 0 only;
        // "glidpk"/"glidpl" hash to 0 / 1 (an all-zero chain word), "glidpj" to 0xffffffff
        vec![b"ab", b"bA", b"aa", b"", b"\xff\xfe", b"a", b"glidpk", b"glidpl", b"abc", b"memset", b"caf\xc3\xa9", b"zz", b"glidpj", b"vkdosa3"]
    } else {
        // elf_hash: "aq" and "ba" collide (0x61*16+0x71 == 0x62*16+0x61);
        // "iiiiia\x8f" hashes to 0x0fffffff (all 28 bits set), "iiiija`" to 0
        vec![b"aq", b"ba", b"a", b"", b"\xff\x80", b"aqx", b"longer_name_9", b"iiiiia\x8f", b"memset", b"caf\xc3\xa9", b"zz", b"iiiija`", b"iiiiia\x8fx"]
    };
    all.into_iter().take(n).map(|x| x.to_vec()).collect()
}

fn queries(u: &[Vec<u8>]) -> Vec<Vec<u8>> {
    let mut q: Vec<Vec<u8>> = u.to_vec();
    // names absent from every table: prefixes / extensions of present names, other bytes
    for extra in [&b"abx"[..], b"b", b"aqq", b"q", b"\xff", b"memse", b"memsets", b"\0"] {
        q.push(extra.to_vec());
    }
    // queries with an embedded NUL are never present (names are NUL-terminated)
    for n in u.iter().take(4) {
        let mut a = n.clone();
        a.push(0);
        q.push(a.clone());
        a.extend_from_slice(b"junk");
        q.push(a);
    }
    q
}

struct Built {
    sect: Vec<u8>,
    symtab: Vec<u8>,
    strtab: Vec<u8>,
    names: Vec<Vec<u8>>,
    /// first index that is hashed (1 for SysV)
    first_hashed: usize,
}

fn build_table(gnu: bool, enc: Enc, u: &[Vec<u8>], subset: u64, symoffset: usize, nbucket: usize, bloom: usize, shift: u32) -> Built {
    let members: Vec<Vec<u8>> = u.iter().enumerate().filter(|(i, _)| *i >= 64 || subset >> i & 1 == 1).map(|(_, n)| n.clone()).collect();
    if gnu {
        // unhashed prefix: null symbol + (symoffset-1) symbols that reuse names of the universe
        let mut unhashed: Vec<Vec<u8>> = vec![vec![]];
        for k in 1..symoffset {
            unhashed.push(u[(k * 3) % u.len()].clone());
        }
        let g = build_gnu(enc, &unhashed, &members, nbucket, bloom, shift);
        let (strtab, offs) = build_strtab(&g.sym_names);
        Built { sect: g.section, symtab: build_symtab(enc, &offs), strtab, names: g.sym_names, first_hashed: symoffset }
    } else {
        let mut names: Vec<Vec<u8>> = vec![vec![]];
        names.extend(members);
        let (strtab, offs) = build_strtab(&names);
        // the SysV `shift` parameter selects how the chains are threaded (ascending / descending / mixed)
        Built { sect: build_sysv_threaded(enc.order, &names, nbucket, (shift % 3) as u8), symtab: build_symtab(enc, &offs), strtab, names, first_hashed: 1 }
    }
}

fn endian_of(enc: Enc) -> AnyEndian {
    if enc.order == Order::Lsb {
        AnyEndian::Little
    } else {
        AnyEndian::Big
    }
}

/// One lookup through the crate: Ok(Some(index, name offset of the returned symbol)) / Ok(None) / Err
fn crate_find(gnu: bool, enc: Enc, sect: &[u8], symtab: &[u8], strtab: &[u8], name: &[u8]) -> Result<Option<Result<Option<(usize, bool)>, ()>>, String> {
    let e = endian_of(enc);
    let c = class_of(enc);
    subject(|| {
        let syms = SymbolTable::new(e, c, symtab);
        let strs = StringTable::new(strtab);
        let r = if gnu {
            let t = GnuHashTable::new(e, c, sect).ok()?;
            t.find(name, &syms, &strs)
        } else {
            let t = SysVHashTable::new(e, c, sect).ok()?;
            t.find(name, &syms, &strs)
        };
        Some(match r {
            Err(_) => Err(()),
            Ok(None) => Ok(None),
            Ok(Some((i, s))) => {
                // soundness: the returned symbol is the table entry at that index
                let same = syms.get(i).map(|x| x == s).unwrap_or(false);
                Ok(Some((i, same)))
            }
        })
    })
}

/// All queries on ONE table object, first in the given order and then in reverse: the answers to a
/// query must not depend on earlier lookups.
fn crate_find_batch(gnu: bool, enc: Enc, sect: &[u8], symtab: &[u8], strtab: &[u8], names: &[Vec<u8>]) -> Result<Option<Vec<Result<Option<(usize, bool)>, ()>>>, String> {
    let e = endian_of(enc);
    let c = class_of(enc);
    subject(|| {
        let syms = SymbolTable::new(e, c, symtab);
        let strs = StringTable::new(strtab);
        let one = |r: Result<Option<(usize, elf::symbol::Symbol)>, elf::ParseError>| match r {
            Err(_) => Err(()),
            Ok(None) => Ok(None),
            Ok(Some((i, s))) => Ok(Some((i, syms.get(i).map(|x| x == s).unwrap_or(false)))),
        };
        let mut fwd = Vec::new();
        let mut bwd = Vec::new();
        if gnu {
            let t = GnuHashTable::new(e, c, sect).ok()?;
            for n in names {
                fwd.push(one(t.find(n, &syms, &strs)));
            }
            for n in names.iter().rev() {
                bwd.push(one(t.find(n, &syms, &strs)));
            }
        } else {
            let t = SysVHashTable::new(e, c, sect).ok()?;
            for n in names {
                fwd.push(one(t.find(n, &syms, &strs)));
            }
            for n in names.iter().rev() {
                bwd.push(one(t.find(n, &syms, &strs)));
            }
        }
        bwd.reverse();
        if fwd != bwd {
            // signalled as an index that cannot exist
            return Some(vec![Ok(Some((usize::MAX, false)))]);
        }
        Some(fwd)
    })
}

pub struct Complete {
    pub gnu: bool,
    pub usize_: usize,
    pub shifts: Vec<u32>,
    pub nbuckets: usize,
    pub blooms: Vec<usize>,
}
impl Complete {
    fn dims(&self) -> [u64; 6] {
        // subset, enc, nbucket, symoffset, bloom, shift
        if self.gnu {
            [1 << self.usize_, 4, self.nbuckets as u64, 3, self.blooms.len() as u64, self.shifts.len() as u64]
        } else {
            [1 << self.usize_, 4, self.nbuckets as u64, 1, 1, self.shifts.len() as u64]
        }
    }
}

impl Space for Complete {
    fn name(&self) -> String {
        if self.gnu {
            format!("GnuHashTable::find on reference-built .gnu.hash: all {} subsets of a {}-name universe (djb2 collision pair, bit-0 neighbours, empty, non-UTF-8, prefixes) x symoffset 1..3 (unhashed prefix reuses names) x nbucket 1..={} x bloom words {:?} x shift {:?} x 4 encodings; every universe name and 8 absent names looked up", 1u64 << self.usize_, self.usize_, self.nbuckets, self.blooms, self.shifts)
        } else {
            format!("SysVHashTable::find on reference-built .hash: all {} subsets of a {}-name universe (elf_hash collision pair, >= 0x80 bytes, prefixes, long name) x nbucket 1..={} x chain threading {{ascending, descending, mixed}} x 4 encodings; every universe name and absent names looked up", 1u64 << self.usize_, self.usize_, self.nbuckets)
        }
    }
    fn size(&self) -> u64 {
        product(&self.dims())
    }
    fn describe(&self, idx: u64) -> Value {
        let d = unmix(idx, &self.dims());
        json!({"subset_mask": format!("{:#b}", d[0]), "encoding": ENCS[d[1] as usize].name(), "nbucket": d[2] + 1, "symoffset": d[3] + 1, "bloom_words": self.blooms.get(d[4] as usize), "shift": self.shifts.get(d[5] as usize)})
    }
    fn run(&self, idx: u64, out: &mut Outcome) {
        let d = unmix(idx, &self.dims());
        let enc = ENCS[d[1] as usize];
        let u = universe(self.gnu, self.usize_);
        let b = build_table(self.gnu, enc, &u, d[0], d[3] as usize + 1, d[2] as usize + 1, *self.blooms.get(d[4] as usize).unwrap_or(&1), *self.shifts.get(d[5] as usize).unwrap_or(&0));
        let who = if self.gnu { "GnuHashTable::find" } else { "SysVHashTable::find" };
        let mut dig = Fnv::new();
        let mut found = 0;
        let qs = queries(&u);
        let batch = match crate_find_batch(self.gnu, enc, &b.sect, &b.symtab, &b.strtab, &qs) {
            Err(m) => {
                out.violate(format!("panic:{who} in {}", panic_site(&m)), m);
                return;
            }
            Ok(None) => {
                out.violate(format!("well-formed-table-rejected:{who}"), format!("{} subset {:#b}", enc.name(), d[0]));
                return;
            }
            Ok(Some(v)) => v,
        };
        if batch.len() != qs.len() {
            out.violate(format!("history-dependent:{who}"), format!("{} names {:?}: the answers of a lookup sequence differ from those of the reversed sequence on the same table", enc.name(), b.names.iter().map(|n| String::from_utf8_lossy(n).to_string()).collect::<Vec<_>>()));
            return;
        }
        for (q, res) in qs.into_iter().zip(batch.into_iter()) {
            out.transitions += 2;
            // ground truth: least hashed index whose name equals the query
            let want = b.names.iter().enumerate().skip(b.first_hashed).find(|(_, n)| **n == q).map(|(i, _)| i);
            let ctx = || format!("{} names {:?} (first hashed index {}) nbucket {} query {:?}", enc.name(), b.names.iter().map(|n| String::from_utf8_lossy(n).to_string()).collect::<Vec<_>>(), b.first_hashed, d[2] + 1, String::from_utf8_lossy(&q));
            match Ok::<_, String>(Some(res)) {
                Err(m) => out.violate(format!("panic:{who} in {}", panic_site(&m)), format!("{}: {m}", ctx())),
                Ok(None) => out.violate(format!("well-formed-table-rejected:{who}"), ctx()),
                Ok(Some(Err(()))) => out.violate(format!("error-on-well-formed-table:{who}"), ctx()),
                Ok(Some(Ok(got))) => {
                    if let Some((_, same)) = got {
                        if !same {
                            out.violate(format!("unsound:{who}"), format!("{}: returned symbol is not the entry at the returned index", ctx()));
                        }
                    }
                    let gi = got.map(|x| x.0);
                    if gi != want {
                        let kind = match (gi, want) {
                            (None, Some(_)) => "present-name-not-found",
                            (Some(_), None) => "absent-name-found",
                            _ => "wrong-symbol",
                        };
                        out.violate(format!("{kind}:{who}"), format!("{}: got {:?}, ground truth {:?}", ctx(), gi, want));
                    }
                    if let Some(i) = gi {
                        found += 1;
                        dig.u64(i as u64);
                    }
                }
            }
        }
        if found > 0 {
            dig.u64(idx);
            out.nontrivial(dig.get());
            out.count("tables_with_hits");
        } else {
            out.count("tables_without_hits");
        }
    }
}

/// Soundness on arbitrary tables: every word of a built table replaced by every V32 value.
pub struct Deviated {
    pub gnu: bool,
}
impl Deviated {
    fn dims(&self) -> [u64; 4] {
        // enc, nbucket, (symoffset/bloom variant), word index
        [4, 4, 3, 40]
    }
}
impl Space for Deviated {
    fn name(&self) -> String {
        format!("{} soundness: every 32-bit word of a reference-built table (6 names; nbucket 1..4; 3 parameter variants; 4 encodings) replaced by every value of V32: Some((i,s)) => s == symtab[i] and name(s) == query", if self.gnu { "GnuHashTable" } else { "SysVHashTable" })
    }
    fn size(&self) -> u64 {
        product(&self.dims())
    }
    fn describe(&self, idx: u64) -> Value {
        let d = unmix(idx, &self.dims());
        json!({"encoding": ENCS[d[0] as usize].name(), "nbucket": d[1] + 1, "variant": d[2], "deviating_word": d[3], "values": "V32"})
    }
    fn run(&self, idx: u64, out: &mut Outcome) {
        let d = unmix(idx, &self.dims());
        let enc = ENCS[d[0] as usize];
        let u = universe(self.gnu, 6);
        let (so, bl, sh) = [(1usize, 1usize, 5u32), (2, 2, 6), (3, 4, 31)][d[2] as usize];
        let b = build_table(self.gnu, enc, &u, 0b111111, so, d[1] as usize + 1, bl, sh);
        let w = d[3] as usize;
        if 4 * w + 4 > b.sect.len() {
            out.count("word_beyond_table");
            return;
        }
        let who = if self.gnu { "GnuHashTable::find" } else { "SysVHashTable::find" };
        let orig = get(&b.sect, 4 * w, 4, enc.order);
        let mut dig = Fnv::new();
        for v in v32() {
            if v == orig {
                continue;
            }
            let mut sect = b.sect.clone();
            put(&mut sect, 4 * w, 4, enc.order, v);
            for q in queries(&u) {
                out.transitions += 1;
                match crate_find(self.gnu, enc, &sect, &b.symtab, &b.strtab, &q) {
                    Err(m) => {
                        out.violate(format!("panic:{who} in {}", panic_site(&m)), format!("word {w} := {v:#x}: {m}"));
                        return;
                    }
                    Ok(Some(Ok(Some((i, same))))) => {
                        let name_ok = b.names.get(i).map(|n| *n == q).unwrap_or(false);
                        if !same || !name_ok {
                            out.violate(
                                format!("unsound:{who}"),
                                format!("{} table word {w} := {v:#x}, query {:?}: returned index {i} whose name is {:?}", enc.name(), String::from_utf8_lossy(&q), b.names.get(i).map(|n| String::from_utf8_lossy(n).to_string())),
                            );
                            return;
                        }
                        dig.u64(i as u64 ^ v);
                    }
                    _ => {}
                }
            }
        }
        out.nontrivial(dig.get() ^ idx);
    }
}

/// Soundness on tables whose hash section and symbol names disagree: the section is built for one
/// name list while the symbol table carries related but different names (extension, prefix, other).
/// Whatever the lookup returns must be the entry at the returned index and carry the queried name.
pub struct Mismatched {
    pub gnu: bool,
}
impl Space for Mismatched {
    fn name(&self) -> String {
        format!("{} soundness on inconsistent input: section built for names A, symbol table carrying B with B[i] in {{A[i]+\"x\", A[i] minus its last byte, A[i+1], A[i], unreadable (st_name beyond the string table / at an unterminated tail)}} for every choice per symbol (5^5) x nbucket 1..3 x 4 encodings; queries A, B and the empty name", if self.gnu { "GnuHashTable" } else { "SysVHashTable" })
    }
    fn size(&self) -> u64 {
        3125 * 3 * 4
    }
    fn describe(&self, idx: u64) -> Value {
        let d = unmix(idx, &[3125, 3, 4]);
        json!({"relation_per_symbol_base5": format!("{:05}", radix4(d[0])), "nbucket": d[1] + 1, "encoding": ENCS[d[2] as usize].name()})
    }
    fn run(&self, idx: u64, out: &mut Outcome) {
        let d = unmix(idx, &[3125, 3, 4]);
        let enc = ENCS[d[2] as usize];
        let a: Vec<Vec<u8>> = vec![b"a".to_vec(), b"ab".to_vec(), b"abc".to_vec(), b"bA".to_vec(), b"memset".to_vec()];
        let built = build_table(self.gnu, enc, &a, 0b11111, 1, d[1] as usize + 1, 1, 5);
        // built.names = final order used by the section; now lie about the names
        let mut b_names = built.names.clone();
        let n = b_names.len();
        let mut code = d[0];
        let mut unreadable: Vec<usize> = Vec::new();
        for i in built.first_hashed..n {
            let rel = code % 5;
            code /= 5;
            if rel == 4 {
                unreadable.push(i);
            }
            let orig = built.names[i].clone();
            b_names[i] = match rel {
                0 => {
                    let mut x = orig.clone();
                    x.push(b'x');
                    x
                }
                1 => orig[..orig.len().saturating_sub(1)].to_vec(),
                2 => built.names[if i + 1 < n { i + 1 } else { built.first_hashed }].clone(),
                _ => orig,
            };
        }
        let (mut strtab, offs) = build_strtab(&b_names);
        let mut symtab = build_symtab(enc, &offs);
        // unreadable names: st_name beyond the table (even symbols) or at a tail without terminator (odd)
        let tail = strtab.len();
        strtab.extend_from_slice(b"zz");
        let symsz = refmodel::layout::layout(refmodel::layout::Kind::Sym, enc.class).size;
        for i in &unreadable {
            let v = if i % 2 == 0 { tail as u64 + 7 } else { tail as u64 };
            refmodel::layout::put(&mut symtab, i * symsz, 4, enc.order, v);
        }
        let who = if self.gnu { "GnuHashTable::find" } else { "SysVHashTable::find" };
        let mut qs = built.names.clone();
        qs.extend(b_names.iter().cloned());
        qs.push(Vec::new());
        qs.push(b"zz".to_vec());
        let mut dig = Fnv::new();
        for q in qs {
            out.transitions += 1;
            match crate_find(self.gnu, enc, &built.sect, &symtab, &strtab, &q) {
                Err(m) => {
                    out.violate(format!("panic:{who} in {}", panic_site(&m)), m);
                    return;
                }
                Ok(Some(Ok(Some((i, same))))) => {
                    let name_ok = !unreadable.contains(&i) && b_names.get(i).map(|x| *x == q).unwrap_or(false);
                    if !same || !name_ok {
                        out.violate(
                            format!("unsound:{who}"),
                            format!("{} section built for {:?}, symbol names {:?}, query {:?}: returned index {} named {:?}", enc.name(), built.names.iter().map(|x| String::from_utf8_lossy(x).to_string()).collect::<Vec<_>>(), b_names.iter().map(|x| String::from_utf8_lossy(x).to_string()).collect::<Vec<_>>(), String::from_utf8_lossy(&q), i, b_names.get(i).map(|x| String::from_utf8_lossy(x).to_string())),
                        );
                        return;
                    }
                    dig.u64(i as u64);
                }
                _ => {}
            }
        }
        out.nontrivial(dig.get() ^ idx);
    }
}
fn radix4(mut v: u64) -> u64 {
    let mut out = 0;
    let mut m = 1;
    for _ in 0..5 {
        out += (v % 5) * m;
        v /= 5;
        m *= 10;
    }
    out
}

/// The exported hash functions against the references.
pub struct HashFn {
    pub gnu: bool,
    pub long: bool,
}
const ALPHA16: [u8; 16] = [0x00, 0x01, b'a', b'b', b'q', b'A', b'z', b'_', b'0', 0x7f, 0x80, 0x81, 0xc3, 0xa9, 0xfe, 0xff];
const ALPHA4: [u8; 4] = [0x01, b'a', 0x80, 0xff];
impl Space for HashFn {
    fn name(&self) -> String {
        format!("{} == reference on all strings of length <= 3 over a 16-byte alphabet (incl. >= 0x80){}", if self.gnu { "gnu_hash" } else { "sysv_hash" }, if self.long { " and all strings of length 7, 8 and 9 over {01,'a',80,ff}" } else { " and all strings of length 8 over {01,'a',80,ff}" })
    }
    fn size(&self) -> u64 {
        17 + if self.long { 64 + 256 + 1024 } else { 256 }
    }
    fn describe(&self, idx: u64) -> Value {
        if idx < 17 {
            json!({"strings": "length <= 3 over 16 symbols", "block": idx})
        } else {
            json!({"strings": "length 7-9 over 4 symbols", "block": idx - 17})
        }
    }
    fn run(&self, idx: u64, out: &mut Outcome) {
        let mut dig = Fnv::new();
        let mut check = |s: &[u8], out: &mut Outcome| {
            out.transitions += 1;
            let (got, want) = if self.gnu { (subject(|| elf::hash::gnu_hash(s)), gnu_hash(s)) } else { (subject(|| elf::hash::sysv_hash(s)), elf_hash(s)) };
            match got {
                Err(m) => out.violate(format!("panic:hash fn in {}", panic_site(&m)), m),
                Ok(g) => {
                    if g != want {
                        out.violate(if self.gnu { "hash-function:gnu_hash" } else { "hash-function:sysv_hash" }, format!("name {}: {:#x}, reference {:#x}", hex(s), g, want));
                    }
                    dig.u64(g as u64);
                }
            }
        };
        if idx < 17 {
            if idx == 0 {
                check(b"", out);
                // names whose (running) hash reaches boundary values: 0, 1, all ones, sign bit
                for n in [&b"glidpk"[..], b"glidpl", b"glidpj", b"glidpi", b"vkdosa3", b"vkdosa2", b"vkdosa4", b"iiiijaa", b"yiiiip", b"yiiiio", b"iiiija`", b"iiiiia\x8f", b"iiiiia\x8e", b"iiiiia\x8fx", b"iiiiia\x8f\xff", b"iiiiia\x8f\x10", b"glidpkx", b"glidpj\xff"] {
                    check(n, out);
                }
                for a in ALPHA16 {
                    check(&[a], out);
                    for b in ALPHA16 {
                        check(&[a, b], out);
                    }
                }
            } else {
                let a = ALPHA16[(idx - 1) as usize];
                for b in ALPHA16 {
                    for c in ALPHA16 {
                        check(&[a, b, c], out);
                    }
                }
            }
        } else {
            // blocks of 256 strings
            let k = idx - 17;
            let (len, block) = if !self.long { (8usize, k) } else if k < 64 { (7, k) } else if k < 64 + 256 { (8, k - 64) } else { (9, k - 320) };
            for lo in 0..256u64 {
                let mut v = (block << 8) | lo;
                let s: Vec<u8> = (0..len).map(|_| {
                    let b = ALPHA4[(v & 3) as usize];
                    v >>= 2;
                    b
                }).collect();
                check(&s, out);
            }
        }
        out.nontrivial(dig.get() ^ idx);
    }
}

/// Large well-formed tables: 300 generated names (with duplicates, empty, >= 0x80 bytes), several
/// bucket counts; every name and a set of absent names is looked up.
pub struct BigTables {
    pub gnu: bool,
}
fn big_names() -> Vec<Vec<u8>> {
    let mut v: Vec<Vec<u8>> = Vec::new();
    for i in 0..300u32 {
        let mut n = format!("sym_{:x}_{}", i.wrapping_mul(2654435761), i % 7).into_bytes();
        if i % 50 == 3 {
            n = b"dup".to_vec();
        }
        if i % 97 == 5 {
            n.push(0x80 + (i % 100) as u8);
        }
        if i == 123 {
            n = Vec::new();
        }
        // one name of 5000 bytes (longer than any block a bounded scan would use)
        if i == 124 {
            n = (0..5000usize).map(|j| b'a' + ((j * 7 + j / 26) % 26) as u8).collect();
        }
        // control bytes in front of the terminator (a word-at-a-time NUL search can mistake them),
        // names of every length 1..=17 ending in 0x01 / 0x7f / 0x80 / 0xff
        if (200..268).contains(&i) {
            let k = (i - 200) as usize;
            let len = 1 + k % 17;
            let last = [0x01u8, 0x7f, 0x80, 0xff][k / 17];
            n = (0..len).map(|j| if j + 1 == len { last } else if j + 2 == len && k % 2 == 0 { last } else { b'a' + ((k + j) % 26) as u8 }).collect();
        }
        v.push(n);
    }
    v
}
impl Space for BigTables {
    fn name(&self) -> String {
        format!("{} with 300 names (duplicates, empty, >= 0x80 bytes, names of every length 1..=17 ending in 01 / 7f / 80 / ff; st_info over all 256 values, every st_other visibility, reserved st_shndx values): nbucket in {{1,7,64,300}} x bloom words {{1,16,64}} x symoffset {{1,17}} x 4 encodings; 300 present + 40 absent lookups each", if self.gnu { ".gnu.hash" } else { ".hash" })
    }
    fn size(&self) -> u64 {
        4 * 4 * 3 * 2 + 4
    }
    fn describe(&self, idx: u64) -> Value {
        if idx >= 96 {
            return json!({"encoding": ENCS[(idx - 96) as usize].name(), "symbols": 70000, "nbucket": 1021});
        }
        let d = unmix(idx, &[4, 4, 3, 2]);
        let (nb, bw, so) = ([1, 7, 64, 300][d[1] as usize], [1, 16, 64][d[2] as usize], [1, 17][d[3] as usize]);
        json!({"encoding": ENCS[d[0] as usize].name(), "nbucket": nb, "bloom_words": bw, "symoffset": so})
    }
    fn run(&self, idx: u64, out: &mut Outcome) {
        if idx >= 96 {
            // 70 000 symbols: indexes beyond 2^16
            let enc = ENCS[(idx - 96) as usize];
            let u: Vec<Vec<u8>> = (0..70_000u32).map(|i| format!("s{:x}", i.wrapping_mul(2654435761)).into_bytes()).collect();
            let who = if self.gnu { "GnuHashTable::find" } else { "SysVHashTable::find" };
            let mut dig = Fnv::new();
            // nbucket 1021: short chains and indexes beyond 2^16; nbucket 3: chains of > 20 000 symbols
            for nb in [1021usize, 3] {
            let b = build_table(self.gnu, enc, &u, u64::MAX, 1, nb, 64, 6);
            for i in [1usize, 255, 256, 257, 1023, 1024, 1025, 4097, 65_535, 65_536, 65_537, 69_999, 70_000] {
                let q = match b.names.get(i) {
                    Some(q) => q.clone(),
                    None => continue,
                };
                out.transitions += 1;
                let want = b.names.iter().enumerate().skip(b.first_hashed).find(|(_, n)| **n == q).map(|(k, _)| k);
                match crate_find(self.gnu, enc, &b.sect, &b.symtab, &b.strtab, &q) {
                    Ok(Some(Ok(got))) if got.map(|x| x.0) == want && got.map(|x| x.1).unwrap_or(true) => dig.u64(i as u64),
                    other => {
                        out.violate(format!("big-table:{who}"), format!("70000-symbol {} table with {} buckets: lookup of symbol {} gives {:?}, ground truth {:?}", enc.name(), nb, i, other.map(|o| o.map(|r| r.map(|g| g.map(|x| x.0)))), want));
                        return;
                    }
                }
            }
            }
            out.nontrivial(dig.get() ^ idx);
            return;
        }
        let d = unmix(idx, &[4, 4, 3, 2]);
        let enc = ENCS[d[0] as usize];
        let nbucket = [1usize, 7, 64, 300][d[1] as usize];
        let bloom = [1usize, 16, 64][d[2] as usize];
        let so = [1usize, 17][d[3] as usize];
        if !self.gnu && (d[2] != 0 || d[3] != 0) {
            out.count("parameter_irrelevant_for_sysv");
            return;
        }
        let u = big_names();
        let mut b = build_table(self.gnu, enc, &u, u64::MAX, so, nbucket, bloom, 6);
        // symbol attributes play no part in a lookup: st_info runs through all 256 values (every
        // type x binding), st_other through all visibilities, st_shndx through reserved indexes
        {
            let l = refmodel::layout::layout(refmodel::layout::Kind::Sym, enc.class);
            let f = |n: &str| l.fields[refmodel::layout::field_index(refmodel::layout::Kind::Sym, enc.class, n)].off;
            let (o_info, o_other, o_shndx) = (f("st_info"), f("st_other"), f("st_shndx"));
            for i in 1..b.names.len() {
                let base = i * l.size;
                b.symtab[base + o_info] = (i as u32 * 53 % 256) as u8;
                b.symtab[base + o_other] = (i % 8) as u8;
                let shndx: u16 = [1u16, 0, 0xfff1, 0xfff2, 0xffff, 0xff00, 7][i % 7];
                refmodel::layout::put(&mut b.symtab, base + o_shndx, 2, enc.order, shndx as u64);
            }
        }
        let who = if self.gnu { "GnuHashTable::find" } else { "SysVHashTable::find" };
        let mut qs = u.clone();
        for i in 0..40u32 {
            qs.push(format!("absent_{}", i).into_bytes());
        }
        let mut dig = Fnv::new();
        for q in qs {
            out.transitions += 1;
            let want = b.names.iter().enumerate().skip(b.first_hashed).find(|(_, n)| **n == q).map(|(i, _)| i);
            match crate_find(self.gnu, enc, &b.sect, &b.symtab, &b.strtab, &q) {
                Err(m) => out.violate(format!("panic:{who} in {}", panic_site(&m)), m),
                Ok(Some(Ok(got))) => {
                    let gi = got.map(|x| x.0);
                    if gi != want || got.map(|x| !x.1).unwrap_or(false) {
                        out.violate(format!("big-table:{who}"), format!("{} nbucket {nbucket} query {:?}: got {:?}, ground truth {:?}", enc.name(), String::from_utf8_lossy(&q), gi, want));
                        return;
                    }
                    dig.u64(gi.unwrap_or(0) as u64);
                }
                _ => {
                    out.violate(format!("error-on-well-formed-table:{who}"), format!("{} nbucket {nbucket} query {:?}", enc.name(), String::from_utf8_lossy(&q)));
                    return;
                }
            }
        }
        out.nontrivial(dig.get() ^ idx);
    }
}

/// Linker-made tables: soundness and agreement with the reference lookup algorithm.
pub struct Samples {
    pub gnu: bool,
}
impl Space for Samples {
    fn name(&self) -> String {
        format!("{} of the 10 repository samples: every dynsym name and 8 absent names; result must be sound and agree with the reference lookup algorithm run on the same bytes (completeness is NOT demanded of linker-made tables)", if self.gnu { ".gnu.hash" } else { ".hash" })
    }
    fn size(&self) -> u64 {
        SAMPLE_FILES.len() as u64
    }
    fn describe(&self, idx: u64) -> Value {
        json!({"sample": SAMPLE_FILES[idx as usize]})
    }
    fn run(&self, idx: u64, out: &mut Outcome) {
        let sk = match sample_skeletons().into_iter().find(|s| s.name == format!("sample/{}", SAMPLE_FILES[idx as usize])) {
            Some(s) => s,
            None => return,
        };
        let f = match ElfBytes::<AnyEndian>::minimal_parse(&sk.bytes) {
            Ok(f) => f,
            Err(_) => return,
        };
        let c = match f.find_common_data() {
            Ok(c) => c,
            Err(_) => return,
        };
        let (syms, strs) = match (c.dynsyms, c.dynsyms_strs) {
            (Some(a), Some(b)) => (a, b),
            _ => return,
        };
        let shdrs = f.section_headers().unwrap();
        let want_ty = if self.gnu { elf::abi::SHT_GNU_HASH } else { elf::abi::SHT_HASH };
        let sect = match shdrs.iter().find(|h| h.sh_type == want_ty) {
            Some(h) => f.section_data(&h).map(|x| x.0).unwrap_or(&[]),
            None => {
                out.count("no_such_table");
                return;
            }
        };
        let name_of = |i: usize| -> Option<Vec<u8>> { syms.get(i).ok().and_then(|s| strs.get_raw(s.st_name as usize).ok()).map(|b| b.to_vec()) };
        let mut names: Vec<Vec<u8>> = (0..syms.len()).filter_map(&name_of).collect();
        names.extend(queries(&[]));
        let who = if self.gnu { "GnuHashTable::find" } else { "SysVHashTable::find" };
        let mut dig = Fnv::new();
        for q in names {
            out.transitions += 1;
            let got = subject(|| if self.gnu { c.gnu_hash.as_ref().map(|t| t.find(&q, &syms, &strs)) } else { c.sysv_hash.as_ref().map(|t| t.find(&q, &syms, &strs)) });
            let reference = if self.gnu { ref_gnu_lookup(sk.enc, sect, &q, &name_of) } else { ref_sysv_lookup(sk.enc.order, sect, &q, &name_of) };
            match got {
                Err(m) => out.violate(format!("panic:{who} in {}", panic_site(&m)), m),
                Ok(None) => {}
                Ok(Some(Err(_))) => {
                    if reference.is_ok() {
                        out.violate(format!("error-on-linker-table:{who}"), format!("{} query {:?}", sk.name, String::from_utf8_lossy(&q)));
                    }
                }
                Ok(Some(Ok(r))) => {
                    let gi = r.as_ref().map(|x| x.0);
                    if let Some((i, s)) = &r {
                        if syms.get(*i).ok().as_ref() != Some(s) || name_of(*i).as_deref() != Some(&q[..]) {
                            out.violate(format!("unsound:{who}"), format!("{} query {:?} -> index {}", sk.name, String::from_utf8_lossy(&q), i));
                        }
                        dig.u64(*i as u64);
                    }
                    if let Ok(w) = reference {
                        if w != gi {
                            out.violate(format!("differs-from-reference-algorithm:{who}"), format!("{} query {:?}: {:?}, reference {:?}", sk.name, String::from_utf8_lossy(&q), gi, w));
                        }
                    }
                }
            }
        }
        out.nontrivial(dig.get() ^ idx);
    }
}

pub fn build_c11(tier: Tier) -> CheckDef {
    let shifts: Vec<u32> = if tier == Tier::Quick { vec![0, 5, 6, 31] } else { (0..32).collect() };
    CheckDef {
        prop: "C11",
        level: "model_checking",
        rule: "small-scope exhaustive enumeration of well-formed .gnu.hash tables produced by a reference builder (every subset of the name universe x every parameter combination) with linear-scan ground truth for every looked-up name; soundness on every single-word deviation and (in C01/C16) on all short word strings; gnu_hash against the djb2 reference on complete string sets. non-trivial = table in which at least one lookup hits".into(),
        assumptions: vec!["completeness is demanded only of builder-made tables (linker-made tables legitimately omit symbols); samples get soundness + agreement with the reference algorithm".into()],
        spaces: vec![
            Box::new(Complete { gnu: true, usize_: tier.pick(8, 12), shifts, nbuckets: tier.pick(4, 6), blooms: if tier == Tier::Quick { vec![1, 2, 4] } else { vec![1, 2, 4, 8, 64] } }),
            Box::new(Deviated { gnu: true }),
            Box::new(Mismatched { gnu: true }),
            Box::new(HashFn { gnu: true, long: tier == Tier::Thorough }),
            Box::new(Samples { gnu: true }),
            Box::new(BigTables { gnu: true }),
        ],
        abort_is_violation: false,
        hang_is_violation: true,
        exhaustive: true,
        bounds: json!({"universe": tier.pick(8, 12), "nbucket": tier.pick("1..4", "1..6"), "bloom_words": tier.pick("1,2,4", "1,2,4,8,64"), "symoffset": "1..3", "shifts": tier.pick("0,5,6,31", "0..31")}),
    }
}

pub fn build_c12(tier: Tier) -> CheckDef {
    CheckDef {
        prop: "C12",
        level: "model_checking",
        rule: "small-scope exhaustive enumeration of well-formed .hash tables produced by a reference builder (every subset of the name universe x nbucket x encoding) with linear-scan ground truth for every looked-up name; soundness on every single-word deviation and (in C01/C16) on all short word strings / all functional chain graphs; sysv_hash against the gABI elf_hash reference on complete string sets. non-trivial = table in which at least one lookup hits".into(),
        assumptions: vec!["completeness is demanded only of builder-made tables; samples get soundness + agreement with the reference algorithm".into()],
        spaces: vec![
            Box::new(Complete { gnu: false, usize_: tier.pick(9, 12), shifts: vec![0, 1, 2], nbuckets: tier.pick(4, 8), blooms: vec![1] }),
            Box::new(Deviated { gnu: false }),
            Box::new(Mismatched { gnu: false }),
            Box::new(HashFn { gnu: false, long: tier == Tier::Thorough }),
            Box::new(Samples { gnu: false }),
            Box::new(BigTables { gnu: false }),
        ],
        abort_is_violation: false,
        hang_is_violation: true,
        exhaustive: true,
        bounds: json!({"universe": tier.pick(9, 12), "nbucket": tier.pick("1..4", "1..8")}),
    }
}
