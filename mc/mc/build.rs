// Lists the `pub const` names of /repo/src/abi.rs (names only; the values are taken from the
// compiled crate through `elf::abi::NAME`), so that newly added constants are checked too.
use std::io::Write;

fn main() {
    let repo = std::env::var("ELF_REPO").unwrap_or_else(|_| "/repo".to_string());
    let path = format!("{repo}/src/abi.rs");
    println!("cargo:rerun-if-changed={path}");
    println!("cargo:rerun-if-env-changed=ELF_REPO");
    let src = std::fs::read_to_string(&path).expect("read abi.rs");
    let mut out = String::new();
    out.push_str("pub static ABI_CONSTS: &[(&str, &str, i128)] = &[\n");
    let mut others = String::new();
    for line in src.lines() {
        let l = line.trim_start();
        if line.starts_with(char::is_whitespace) {
            continue; // nested items are not exported constants of the module
        }
        if let Some(rest) = l.strip_prefix("pub const ") {
            if let Some(colon) = rest.find(':') {
                let name = rest[..colon].trim();
                let after = rest[colon + 1..].trim_start();
                let ty = after.split(|c: char| c == '=' ).next().unwrap_or("").trim();
                match ty {
                    "u8" | "u16" | "u32" | "u64" | "i64" | "usize" | "i32" | "i16" | "i8" | "isize" => {
                        out.push_str(&format!("    (\"{name}\", \"{ty}\", elf::abi::{name} as i128),\n"));
                    }
                    _ => {
                        others.push_str(&format!("    (\"{name}\", \"{}\"),\n", ty.replace('"', "'")));
                    }
                }
            }
        }
    }
    out.push_str("];\n");
    out.push_str("pub static ABI_OTHER_CONSTS: &[(&str, &str)] = &[\n");
    out.push_str(&others);
    out.push_str("];\n");
    let dest = std::path::Path::new(&std::env::var("OUT_DIR").unwrap()).join("abi_consts.rs");
    std::fs::File::create(dest).unwrap().write_all(out.as_bytes()).unwrap();
}
