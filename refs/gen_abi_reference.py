#!/usr/bin/env python3
"""Generate refs/abi_reference.json from glibc <elf.h> and LLVM-14 BinaryFormat headers.

Run once (the result is committed); the check itself only reads the JSON.
For every macro / enumerator name: the integer value each reference assigns (or null).
"""
import json, re, sys, glob, os

GLIBC = "/usr/include/elf.h"
LLVM = "/usr/include/llvm-14/llvm/BinaryFormat"

def strip_comments(t):
    t = re.sub(r"/\*.*?\*/", " ", t, flags=re.S)
    t = re.sub(r"//[^\n]*", " ", t)
    return t

def to_int(expr, env):
    e = expr.strip()
    if not e:
        return None
    # char literals
    e = re.sub(r"'(\\?.)'", lambda m: str(ord(m.group(1)[-1]) if not m.group(1).startswith("\\") else {"\\0":0,"\\n":10,"\\t":9}.get(m.group(1), ord(m.group(1)[-1]))), e)
    # integer suffixes
    e = re.sub(r"\b(0[xX][0-9a-fA-F]+|\d+)[uUlL]+\b", r"\1", e)
    # C casts like (Elf32_Word) / (unsigned)
    e = re.sub(r"\(\s*(unsigned|signed|int|long|Elf\d+_\w+)(\s+\w+)*\s*\)", "", e)
    # octal literals
    e = re.sub(r"\b0([0-7]+)\b", r"0o\1", e)
    names = set(re.findall(r"[A-Za-z_]\w*", e))
    for n in names:
        if n in ("0x", "0o"):
            continue
        if re.fullmatch(r"0[xXo][0-9a-fA-F]+", n):
            continue
    def sub(m):
        n = m.group(0)
        if n in env and env[n] is not None:
            return "(%d)" % env[n]
        return n
    e2 = re.sub(r"(?<![0-9a-zA-Z_])[A-Za-z_]\w*", sub, e)
    if re.search(r"[A-Za-z_]", re.sub(r"0[xXo][0-9a-fA-F]+", "", e2)):
        return None
    if not re.fullmatch(r"[0-9a-fA-FxXo\s()+\-*|&<>~]+", e2):
        return None
    try:
        v = eval(e2, {"__builtins__": {}}, {})
    except Exception:
        return None
    if isinstance(v, int):
        return v
    return None

def parse_glibc():
    t = strip_comments(open(GLIBC).read())
    t = t.replace("\\\n", " ")
    env = {}
    for m in re.finditer(r"^[ \t]*#[ \t]*define[ \t]+([A-Za-z_]\w*)[ \t]+(.+?)[ \t]*$", t, flags=re.M):
        name, val = m.group(1), m.group(2)
        v = to_int(val, env)
        if v is not None and name not in env:
            env[name] = v
    return env

def parse_llvm():
    env = {}
    t = strip_comments(open(os.path.join(LLVM, "ELF.h")).read())
    # enumerators: NAME = value,
    for m in re.finditer(r"^\s*([A-Za-z_]\w*)\s*=\s*([^,{};]+?)\s*,?\s*$", t, flags=re.M):
        name, val = m.group(1), m.group(2)
        v = to_int(val, env)
        if v is not None and name not in env:
            env[name] = v
    for f in sorted(glob.glob(os.path.join(LLVM, "ELFRelocs", "*.def"))):
        d = strip_comments(open(f).read())
        for m in re.finditer(r"ELF_RELOC\(\s*(\w+)\s*,\s*([^)]+)\)", d):
            v = to_int(m.group(2), env)
            if v is not None and m.group(1) not in env:
                env[m.group(1)] = v
    d = strip_comments(open(os.path.join(LLVM, "DynamicTags.def")).read())
    for m in re.finditer(r"^\s*(\w*DYNAMIC_TAG\w*)\(\s*(\w+)\s*,\s*([^)]+)\)", d, flags=re.M):
        if m.group(2) in ("name",):
            continue
        v = to_int(m.group(3), env)
        n = "DT_" + m.group(2)
        if v is not None and n not in env:
            env[n] = v
    return env

def main():
    g = parse_glibc()
    l = parse_llvm()
    names = sorted(set(g) | set(l))
    out = {n: {"glibc": g.get(n), "llvm": l.get(n)} for n in names}
    json.dump({"sources": {"glibc": GLIBC, "llvm": LLVM}, "constants": out}, open(sys.argv[1], "w"), indent=0, sort_keys=True)
    print(len(out), "names;", sum(1 for n in names if n in g), "glibc;", sum(1 for n in names if n in l), "llvm")

if __name__ == "__main__":
    main()
