//! C06 probe: a #![no_std] consumer with its own panic handler and NO global allocator.
//! If `elf` (default-features = false) linked std, this fails with a duplicate `panic_impl`
//! lang item; if it linked alloc, with "no global memory allocator found".
#![no_std]

use elf::endian::AnyEndian;
use elf::ElfBytes;

#[panic_handler]
fn panic(_: &core::panic::PanicInfo<'_>) -> ! {
    loop {}
}

#[no_mangle]
pub extern "C" fn probe_parse(ptr: *const u8, len: usize) -> usize {
    // SAFETY: the probe is only built, never run.
    let data = unsafe { core::slice::from_raw_parts(ptr, len) };
    match ElfBytes::<AnyEndian>::minimal_parse(data) {
        Ok(f) => {
            let mut n = f.ehdr.e_shnum as usize;
            if let Ok(c) = f.find_common_data() {
                n += c.dynsyms.map(|t| t.len()).unwrap_or(0);
            }
            n
        }
        Err(_) => 0,
    }
}
